//! Contracts (harness form) on the real functions of src/builtins.rs (child module of crate::builtins in the overlay).
use super::*;
use std::mem::ManuallyDrop;

pub fn fmt_stub(_args: std::fmt::Arguments<'_>) -> String {
    String::new()
}
fn new_gc() -> ManuallyDrop<GC> {
    ManuallyDrop::new(GC::new())
}
fn keep<T>(r: T) -> ManuallyDrop<T> {
    ManuallyDrop::new(r)
}
const MAX_INT: isize = isize::MAX >> 3;
const MIN_INT: isize = isize::MIN >> 3;
fn any_int() -> isize {
    let v: isize = kani::any();
    kani::assume(v >= MIN_INT && v <= MAX_INT);
    v
}
fn word(o: Object) -> usize {
    unsafe { std::mem::transmute::<Object, usize>(o) }
}
fn from_word(w: usize) -> Object {
    unsafe { std::mem::transmute::<usize, Object>(w) }
}
fn any_word_with_tag(k: u8) -> Object {
    let w: usize = kani::any();
    kani::assume(w & 7 == k as usize);
    from_word(w)
}

// ---- callee contracts (modular): heap reads / allocation are replaced by ghost state --------------------
static mut GHOST_F64: f64 = 0.0;          // payload of the (single) float argument
static mut GHOST_TEXT_EMPTY: bool = true; // whether the (single) text argument is empty
static mut GHOST_VEC_EMPTY: bool = true;
static mut GHOST_OUT_F64: Option<f64> = None;
static mut EMPTY_VEC: Vec<Object> = Vec::new();
static mut ONE_VEC: Vec<Object> = Vec::new();
/// PROVED-BY: O15.7 (payload read back)
unsafe fn as_f64_contract(_o: Object) -> f64 { GHOST_F64 }
/// PROVED-BY: O15.7/O03.1 (Float word holding `value`, registered)
fn float_contract(value: f64, _gc: &mut GC) -> Object {
    unsafe { GHOST_OUT_F64 = Some(value); }
    from_word(0x7000 | 4)
}
/// PROVED-BY: O15.8a (text read back) - here only emptiness matters
unsafe fn as_str_contract(_o: &Object) -> &str { if GHOST_TEXT_EMPTY { "" } else { "x" } }
#[allow(static_mut_refs)]
unsafe fn as_vec_contract(_o: &Object) -> &Vec<Object> { if GHOST_VEC_EMPTY { &EMPTY_VEC } else { &ONE_VEC } }

fn one_arg_builtin(k: u8) -> Builtin {
    match k { 0 => Builtin::Type, 1 => Builtin::Bool, 2 => Builtin::Float, 3 => Builtin::Int, 4 => Builtin::String, _ => Builtin::Length }
}

/// O14.1  the VM recovers the builtin from its byte with transmute: sound exactly for the bytes 0..=6, which
/// are the discriminants of the seven builtins - and `resolve` can only return one of those.
#[kani::proof]
#[kani::unwind(2)]
fn c14_builtin_bytes() {
    let k: u8 = kani::any();
    kani::assume(k <= 6);
    kani::cover!(k == 6);
    let b = unsafe { std::mem::transmute::<u8, Builtin>(k) };
    assert!(b as u8 == k);
    assert!(Builtin::Print as u8 == 0 && Builtin::Type as u8 == 1 && Builtin::Bool as u8 == 2 && Builtin::Float as u8 == 3
        && Builtin::Int as u8 == 4 && Builtin::String as u8 == 5 && Builtin::Length as u8 == 6);
}

/// O14.1n [bounded: the 7 documented names and 5 near misses, one concrete name each] `resolve` knows exactly
/// the documented names.
#[kani::proof]
#[kani::unwind(10)]
fn c14_resolve_names() {
    assert!(matches!(resolve("print"), Some(Builtin::Print)));
    assert!(matches!(resolve("type"), Some(Builtin::Type)));
    assert!(matches!(resolve("bool"), Some(Builtin::Bool)));
    assert!(matches!(resolve("int"), Some(Builtin::Int)));
    assert!(matches!(resolve("float"), Some(Builtin::Float)));
    assert!(matches!(resolve("string"), Some(Builtin::String)));
    assert!(matches!(resolve("lengte"), Some(Builtin::Length)));
    assert!(resolve("Print").is_none() && resolve("").is_none() && resolve("length").is_none() && resolve("prin").is_none() && resolve("printt").is_none());
}

/// O14.2  arity: every builtin except print answers ArgumentError unless it gets exactly one argument
/// (0, 2 or 3 arguments of ANY words; no argument is inspected).
#[kani::proof]
#[kani::unwind(8)]
#[kani::stub(std::fmt::format, fmt_stub)]
fn c14_arity() {
    let args = [from_word(kani::any()), from_word(kani::any()), from_word(kani::any())];
    let mut gc = new_gc();
    // the six builtins and the three wrong argument counts are enumerated concretely (complete), the
    // argument words are symbolic
    let mut k = 0u8;
    while k < 6 {
        let mut n = 0usize;
        while n <= 3 {
            if n != 1 {
                let r = keep(call(one_arg_builtin(k), &args[..n], &mut gc));
                assert!(matches!(&*r, Err(Error::ArgumentError(_))));
            }
            n += 1;
        }
        k += 1;
    }
    kani::cover!(k == 6);
}

/// O14.3b  bool(x): null -> nee; bool -> the same word; int -> x > 0; float -> x > 0.0; text / array -> not
/// empty; function -> ArgumentError. For ALL payloads.
#[kani::proof]
#[kani::unwind(2)]
#[kani::stub(std::fmt::format, fmt_stub)]
#[kani::stub(Object::as_f64_unchecked, as_f64_contract)]
#[kani::stub(Object::as_str_unchecked, as_str_contract)]
#[kani::stub(Object::as_vec_unchecked, as_vec_contract)]
fn c14_bool() {
    let k: u8 = kani::any();
    kani::assume(k < 7);
    kani::cover!(k == 4);
    kani::cover!(k == 6);
    let x = if k == 2 { Object::bool(kani::any()) } else { any_word_with_tag(k) };
    let f: f64 = kani::any();
    let (te, ve): (bool, bool) = (kani::any(), kani::any());
    #[allow(static_mut_refs)]
    unsafe { GHOST_F64 = f; GHOST_TEXT_EMPTY = te; GHOST_VEC_EMPTY = ve; if ONE_VEC.is_empty() { ONE_VEC.push(Object::null()); } }
    let r = keep(call_bool(&[x]));
    match k {
        3 => assert!(matches!(&*r, Err(Error::ArgumentError(_)))),
        2 => assert!(matches!(&*r, Ok(o) if word(*o) == word(x))),
        _ => {
            let want = match k { 0 => false, 1 => x.as_int() > 0, 4 => f > 0.0, 5 => !te, _ => !ve };
            assert!(matches!(&*r, Ok(o) if o.tag() == Type::Bool && o.as_bool() == want));
        }
    }
}

/// O14.3i  int(x): null -> 0; bool -> 0/1; int -> the same word; float -> truncation toward zero, or an error
/// when the truncated value is outside the 61-bit range (never a wrapped value); array/function ->
/// ArgumentError; empty text -> ArgumentError. For ALL payloads (2^64 float bit patterns).
#[kani::proof]
#[kani::unwind(2)]
#[kani::stub(std::fmt::format, fmt_stub)]
#[kani::stub(Object::as_f64_unchecked, as_f64_contract)]
#[kani::stub(Object::as_str_unchecked, as_str_contract)]
fn c14_int() {
    let k: u8 = kani::any();
    kani::assume(k < 7);
    kani::cover!(k == 4);
    let x = if k == 2 { Object::bool(kani::any()) } else { any_word_with_tag(k) };
    let f: f64 = kani::any();
    kani::cover!(k == 4 && f > 1e20);
    kani::cover!(k == 4 && f < 0.0 && f > -3.0);
    unsafe { GHOST_F64 = f; GHOST_TEXT_EMPTY = true; }
    let r = keep(call_int(&[x]));
    match k {
        0 => assert!(matches!(&*r, Ok(o) if o.tag() == Type::Int && o.as_int() == 0)),
        1 => assert!(matches!(&*r, Ok(o) if word(*o) == word(x))),
        2 => assert!(matches!(&*r, Ok(o) if o.tag() == Type::Int && o.as_int() == x.as_bool() as isize)),
        4 => {
            // truncation toward zero: |f - t| < 1 and t between 0 and f
            if f.is_nan() {
                assert!(match &*r { Ok(o) => o.tag() == Type::Int, Err(_) => true });
            } else if f >= -1152921504606846976.0 && f < 1152921504606846976.0 {
                match &*r {
                    Ok(o) => {
                        assert!(o.tag() == Type::Int);
                        let t = o.as_int() as f64; // exact: |t| <= 2^60 and t is an integer; f64 may round above 2^53
                        assert!(if f >= 0.0 { t <= f && f - t < 1.0 } else { t >= f && t - f < 1.0 } || f.abs() >= 9007199254740992.0);
                    }
                    Err(_) => assert!(false, "float inside the integer range must convert"),
                }
            } else {
                assert!(r.is_err());
            }
        }
        5 => assert!(matches!(&*r, Err(Error::ArgumentError(_)))),
        _ => assert!(matches!(&*r, Err(Error::ArgumentError(_)))),
    }
}

/// O14.3f  float(x): null -> 0.0; bool -> 0.0/1.0; float -> the same word; int -> the nearest f64 (`as f64`,
/// exact below 2^53); array/function -> ArgumentError. For ALL payloads.
#[kani::proof]
#[kani::unwind(2)]
#[kani::stub(std::fmt::format, fmt_stub)]
#[kani::stub(Object::float, float_contract)]
#[kani::stub(Object::as_str_unchecked, as_str_contract)]
fn c14_float() {
    let k: u8 = kani::any();
    kani::assume(k < 7);
    kani::cover!(k == 1);
    let x = if k == 2 { Object::bool(kani::any()) } else { any_word_with_tag(k) };
    unsafe { GHOST_OUT_F64 = None; GHOST_TEXT_EMPTY = true; }
    let mut gc = new_gc();
    let r = keep(call_float(&[x], &mut gc));
    let out = unsafe { GHOST_OUT_F64 };
    match k {
        0 => assert!(r.is_ok() && out == Some(0.0)),
        1 => {
            assert!(r.is_ok());
            let v = out.unwrap();
            assert!(v == x.as_int() as f64);
            if x.as_int().abs() < (1 << 53) { assert!(v as isize == x.as_int()); }
        }
        2 => assert!(r.is_ok() && out == Some(if x.as_bool() { 1.0 } else { 0.0 })),
        4 => assert!(matches!(&*r, Ok(o) if word(*o) == word(x)) && out.is_none()),
        _ => assert!(matches!(&*r, Err(Error::ArgumentError(_)))),
    }
}

/// O14.3l  lengte(x) on anything but text or array is a TypeError (ALL words); on an array it is the number of
/// elements.
#[kani::proof]
#[kani::unwind(2)]
#[kani::stub(std::fmt::format, fmt_stub)]
fn c14_length_type_error() {
    let k: u8 = kani::any();
    kani::assume(k < 5);
    let x = any_word_with_tag(k);
    let r = keep(call_length(&[x]));
    assert!(matches!(&*r, Err(Error::TypeError(_))));
}
#[kani::proof]
#[kani::unwind(5)]
#[kani::stub(std::fmt::format, fmt_stub)]
#[kani::stub(GC::trace, trace_contract)]
#[kani::stub(Object::as_str, as_str_safe_contract)]
fn c14_length_array() {
    let mut gc = new_gc();
    let e = from_word(kani::any());
    let mut n = 0usize;
    while n <= 2 {
        let v = match n { 0 => vec![], 1 => vec![e], _ => vec![e, Object::null()] };
        let a = crate::object::FromVec::array(v, &mut gc);
        let r = keep(call_length(&[a]));
        assert!(matches!(&*r, Ok(o) if o.tag() == Type::Int && o.as_int() == n as isize));
        n += 1;
    }
    kani::cover!(n == 3);
}
fn trace_contract(_gc: &mut GC, _o: Object) {}
fn as_str_safe_contract(_o: &Object) -> &str { "" }

/// O14.0  dispatch: `call` hands the arguments to the function of the requested builtin (each callee replaced
/// by a recorder).
static mut WHICH: u8 = 255;
fn rec_print(_a: &[Object]) -> Result<Object, Error> { unsafe { WHICH = 0; } Ok(Object::null()) }
fn rec_type(_a: &[Object], _g: &mut GC) -> Result<Object, Error> { unsafe { WHICH = 1; } Ok(Object::null()) }
fn rec_bool(_a: &[Object]) -> Result<Object, Error> { unsafe { WHICH = 2; } Ok(Object::null()) }
fn rec_float(_a: &[Object], _g: &mut GC) -> Result<Object, Error> { unsafe { WHICH = 3; } Ok(Object::null()) }
fn rec_int(_a: &[Object]) -> Result<Object, Error> { unsafe { WHICH = 4; } Ok(Object::null()) }
fn rec_string(_a: &[Object], _g: &mut GC) -> Result<Object, Error> { unsafe { WHICH = 5; } Ok(Object::null()) }
fn rec_length(_a: &[Object]) -> Result<Object, Error> { unsafe { WHICH = 6; } Ok(Object::null()) }
#[kani::proof]
#[kani::unwind(2)]
#[kani::stub(call_print, rec_print)]
#[kani::stub(call_type, rec_type)]
#[kani::stub(call_bool, rec_bool)]
#[kani::stub(call_float, rec_float)]
#[kani::stub(call_int, rec_int)]
#[kani::stub(call_string, rec_string)]
#[kani::stub(call_length, rec_length)]
fn c14_dispatch() {
    let k: u8 = kani::any();
    kani::assume(k <= 6);
    kani::cover!(k == 0);
    kani::cover!(k == 6);
    let b = unsafe { std::mem::transmute::<u8, Builtin>(k) };
    let mut gc = new_gc();
    unsafe { WHICH = 255; }
    let r = keep(call(b, &[], &mut gc));
    assert!(r.is_ok());
    assert!(unsafe { WHICH } == k);
}
