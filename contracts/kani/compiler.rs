//! Contracts (harness form) on the real functions of src/compiler.rs (child module of crate::compiler in the overlay).
use super::*;
use std::mem::ManuallyDrop;

fn word(o: Object) -> usize {
    unsafe { std::mem::transmute::<Object, usize>(o) }
}
fn compiler_with(code: Vec<u8>) -> ManuallyDrop<Compiler> {
    let mut c = Compiler::new();
    c.instructions = code;
    ManuallyDrop::new(c)
}

/// O02.op  OpCode::from is total on 0..=44 and is the inverse of `op as u8`; 44 (Halt) is the last opcode
#[kani::proof]
#[kani::unwind(2)]
fn c02_opcode_roundtrip() {
    let b: u8 = kani::any();
    kani::assume(b <= 44);
    kani::cover!(b == 0);
    kani::cover!(b == 44);
    let op = OpCode::from(b);
    assert!(op as u8 == b);
    assert!(OpCode::Halt as u8 == 44 && OpCode::Const as u8 == 0);
}

/// O02.ops  the operand widths the compiler records for an opcode are the widths the machine's arm reads
/// (the arm contracts in unit c02_arms / c12_calls advance ip by exactly this many bytes)
#[kani::proof]
#[kani::unwind(4)]
fn c02_operand_widths() {
    let b: u8 = kani::any();
    kani::assume(b <= 44);
    let op = OpCode::from(b);
    let w: usize = {
        let ws = op.operands();
        let mut s = 0;
        let mut i = 0;
        while i < ws.len() { s += ws[i]; i += 1; }
        s
    };
    use OpCode::*;
    let want = match op {
        Const | Jump | JumpIfFalse | Array | SetLocal | GetLocal | SetGlobal | GetGlobal => 2,
        GtLocalConst | GteLocalConst | LtLocalConst | LteLocalConst | EqLocalConst | NeqLocalConst | AddLocalConst | SubtractLocalConst
        | MultiplyLocalConst | DivideLocalConst | ModuloLocalConst => 4,
        CallBuiltin => 2,
        Call => 1,
        _ => 0,
    };
    assert!(w == want);
}

/// O02.emit  emit_u16 appends exactly two bytes, low byte first (the layout read_u16 decodes, O02.h2), and
/// changes no earlier byte; emit_u8 / emit_opcode append exactly one byte
#[kani::proof]
#[kani::unwind(6)]
fn c02_emit() {
    let v: u16 = kani::any();
    let pre: [u8; 2] = kani::any();
    kani::cover!(v == 0xFFFF);
    let mut c = compiler_with(pre.to_vec());
    c.emit_u16(v);
    assert!(c.instructions.len() == 4);
    assert!(c.instructions[0] == pre[0] && c.instructions[1] == pre[1]);
    assert!(c.instructions[2] as u32 + 256 * c.instructions[3] as u32 == v as u32);
    let b: u8 = kani::any();
    c.emit_u8(b);
    assert!(c.instructions.len() == 5 && c.instructions[4] == b);
    let k: u8 = kani::any();
    kani::assume(k <= 44);
    let op = OpCode::from(k);
    c.emit_opcode(op);
    assert!(c.instructions.len() == 6 && c.instructions[5] == k);
    assert!(c.last_instruction == Some(op));
}

/// O11.patch  change_jump_operand_at(idx, v): requires a Jump / JumpIfFalse opcode at idx and idx+2 < len
/// ensures bytes idx+1, idx+2 hold v (little endian) and NO other byte changes
#[kani::proof]
#[kani::unwind(8)]
fn c11_change_jump_operand() {
    let mut code: [u8; 6] = kani::any();
    let idx: usize = kani::any();
    kani::assume(idx < 4);
    let j: bool = kani::any();
    code[idx] = if j { OpCode::Jump as u8 } else { OpCode::JumpIfFalse as u8 };
    let v: u16 = kani::any();
    kani::cover!(idx == 3 && v == 1337);
    let mut c = compiler_with(code.to_vec());
    c.change_jump_operand_at(idx, v);
    assert!(c.instructions.len() == 6);
    let mut i = 0;
    while i < 6 {
        if i == idx + 1 { assert!(c.instructions[i] == (v & 0xFF) as u8); }
        else if i == idx + 2 { assert!(c.instructions[i] == (v >> 8) as u8); }
        else { assert!(c.instructions[i] == code[i]); }
        i += 1;
    }
}

const MAX_INT: isize = isize::MAX >> 3;
const MIN_INT: isize = isize::MIN >> 3;
fn any_int() -> isize {
    let v: isize = kani::any();
    kani::assume(v >= MIN_INT && v <= MAX_INT);
    v
}

/// O10.1 [bounded: pool of 0..=2 existing integer constants, symbolic new integer constant] add_constant(obj): the returned slot
/// holds a constant of the same type and content; every earlier slot is unchanged; the index is in range.
/// So a literal that also occurs elsewhere in the program (merged slot) or other literals (shifted slots)
/// cannot change what a literal means.
unsafe fn as_str_contract(_o: &Object) -> &str { "" }
unsafe fn as_f64_contract(_o: Object) -> f64 { 0.0 }
#[kani::proof]
#[kani::unwind(5)]
#[kani::stub(Object::as_str_unchecked, as_str_contract)]
#[kani::stub(Object::as_f64_unchecked, as_f64_contract)]
fn c10_add_constant() {
    let mut c = compiler_with(vec![]);
    let n: usize = kani::any();
    kani::assume(n <= 2);
    let (p0, p1, v) = (any_int(), any_int(), any_int());
    let (e0, e1, obj) = (Object::int(p0), Object::int(p1), Object::int(v));
    c.constants = Vec::with_capacity(4); // no reallocation inside the function under contract (cheaper for CBMC)
    if n >= 1 { c.constants.push(e0); }
    if n >= 2 { c.constants.push(e1); }
    kani::cover!(n == 2 && v == p1 && v != p0);
    let idx = match &*ManuallyDrop::new(c.add_constant(obj)) { Ok(i) => *i as usize, Err(_) => { assert!(false, "a pool of <= 3 constants fits a 16-bit index"); 0 } };
    assert!(idx < c.constants.len());
    assert!(word(c.constants[idx]) == word(obj));
    assert!(c.constants.len() == n || c.constants.len() == n + 1);
    if n >= 1 { assert!(word(c.constants[0]) == word(e0)); }
    if n >= 2 { assert!(word(c.constants[1]) == word(e1)); }
    assert!(c.instructions.len() == 0);
}

fn any_immediate() -> Object {
    let k: u8 = kani::any();
    match k % 4 {
        0 => Object::null(),
        1 => Object::bool(kani::any()),
        2 => Object::int(any_int()),
        _ => Object::function(kani::any(), kani::any()),
    }
}
/// O10.1t [thorough tier; bounded: pool of 0..=3 entries drawn from ALL immediates (null, bools, ints, function descriptors), symbolic new
/// immediate constant] the same contract as O10.1, plus: an existing equal entry is re-used (the pool does not grow)
/// and a new one is appended at the end
#[kani::proof]
#[kani::unwind(7)]
#[kani::stub(Object::as_str_unchecked, as_str_contract)]
#[kani::stub(Object::as_f64_unchecked, as_f64_contract)]
fn c10_add_constant_pool3() {
    let mut c = compiler_with(vec![]);
    let n: usize = kani::any();
    kani::assume(n <= 3);
    let e = [any_immediate(), any_immediate(), any_immediate(), any_immediate()];
    let obj = any_immediate();
    c.constants = Vec::with_capacity(6);
    if n >= 1 { c.constants.push(e[0]); }
    if n >= 2 { c.constants.push(e[1]); }
    if n >= 3 { c.constants.push(e[2]); }
    if n >= 4 { c.constants.push(e[3]); }
    kani::cover!(n == 3 && word(obj) == word(e[2]) && word(obj) != word(e[0]));
    let idx = match &*ManuallyDrop::new(c.add_constant(obj)) { Ok(i) => *i as usize, Err(_) => { assert!(false); 0 } };
    assert!(idx < c.constants.len() && word(c.constants[idx]) == word(obj));
    let mut present = false;
    let mut k = 0;
    while k < n { assert!(word(c.constants[k]) == word(e[k])); if word(e[k]) == word(obj) { present = true; } k += 1; }
    assert!(c.constants.len() == if present { n } else { n + 1 });
    if !present { assert!(idx == n); }
}

fn trace_contract(_gc: &mut GC, _o: Object) {}
static mut UNTRACE_CALLS: usize = 0;
fn untrace_rec(_gc: &mut GC, _o: Object) { unsafe { UNTRACE_CALLS += 1; } }
/// O10.1f [bounded: pool of one float constant, ALL pairs of f64 bit patterns] a float literal is stored in (or
/// merged into) a slot whose value is IEEE-equal to it - two different float literals never share a slot.
/// Frame (C04, added after seeded change C04-2): add_constant does NOT take the constant out of the collector's
/// ownership - the pool is handed over as a whole by compile_program on success, so a compilation that fails
/// later still releases what it built
#[kani::proof]
#[kani::unwind(5)]
#[kani::stub(Object::as_str_unchecked, as_str_contract)]
#[kani::stub(GC::trace, trace_contract)]
#[kani::stub(GC::untrace, untrace_rec)]
fn c10_add_constant_float() {
    unsafe { UNTRACE_CALLS = 0; }
    let mut c = compiler_with(vec![]);
    let (x, y): (f64, f64) = (kani::any(), kani::any());
    kani::assume(!x.is_nan() && !y.is_nan());
    kani::cover!(x == y);
    kani::cover!(x != y);
    let mut gc = ManuallyDrop::new(GC::new());
    let (e0, obj) = (Object::float(x, &mut gc), Object::float(y, &mut gc));
    c.constants = Vec::with_capacity(4);
    c.constants.push(e0);
    let idx = match &*ManuallyDrop::new(c.add_constant(obj)) { Ok(i) => *i as usize, Err(_) => { assert!(false); 0 } };
    assert!(idx < c.constants.len());
    assert!(c.constants[idx].tag() == crate::object::Type::Float);
    assert!(c.constants[idx].as_f64() == y);
    assert!(c.constants[0].as_f64().to_bits() == x.to_bits());
    assert!(unsafe { UNTRACE_CALLS } == 0);
}

// ------------------------------------------------------------------------------------------
// C09  bounded twin of the block contract (Verus unit c02_blocks, O02.blocks) on the real compile_block_statement,
// whatever its syntactic form. Callees are recorders (modular): the scope operations move a ghost depth, the
// statement generator records at which depth it was called and for which statement.
// ------------------------------------------------------------------------------------------
static mut DEPTH: i32 = 0;
static mut STMT_CALLS: usize = 0;
static mut STMT_DEPTH_OK: bool = true;
static mut STMT_ORDER_OK: bool = true;
static mut STMT_ADDR: [usize; 3] = [0; 3];
fn enter_scope_rec(_t: &mut crate::symbols::SymbolTable) { unsafe { DEPTH += 1; } }
fn leave_scope_rec(_t: &mut crate::symbols::SymbolTable) { unsafe { DEPTH -= 1; } }
fn compile_statement_rec(c: &mut Compiler, s: &Stmt) -> Result<(), Error> {
    unsafe {
        if DEPTH != 1 { STMT_DEPTH_OK = false; }
        if STMT_CALLS >= 3 || STMT_ADDR[STMT_CALLS] != s as *const Stmt as usize { STMT_ORDER_OK = false; }
        STMT_CALLS += 1;
    }
    c.instructions.push(0);
    Ok(())
}
/// O09.4k [bounded: blocks of 1..=3 statements of any of three shapes]  every statement of a non-empty block is
/// handed to the statement generator exactly once, in order, ONE SCOPE DEEPER than the block itself, and the depth is
/// back afterwards (names declared in the block cease to exist at its end) - also for a block that holds a single
/// expression statement
#[kani::proof]
#[kani::unwind(5)]
#[kani::stub(crate::symbols::SymbolTable::enter_scope, enter_scope_rec)]
#[kani::stub(crate::symbols::SymbolTable::leave_scope, leave_scope_rec)]
#[kani::stub(Compiler::compile_statement, compile_statement_rec)]
fn c09_block_scope_twin() {
    let n: usize = kani::any();
    kani::assume(n >= 1 && n <= 3);
    let shape: [u8; 3] = kani::any();
    let mut stmts: Vec<Stmt> = Vec::with_capacity(3);
    let mut i = 0;
    while i < n {
        stmts.push(match shape[i] % 3 {
            0 => Stmt::Expr(Expr::Bool { value: true }),
            1 => Stmt::Break,
            _ => Stmt::Return(Expr::Int { value: 1 }),
        });
        i += 1;
    }
    let stmts = ManuallyDrop::new(stmts);
    unsafe {
        DEPTH = 0; STMT_CALLS = 0; STMT_DEPTH_OK = true; STMT_ORDER_OK = true;
        let mut k = 0;
        while k < n { STMT_ADDR[k] = &stmts[k] as *const Stmt as usize; k += 1; }
    }
    kani::cover!(n == 1 && shape[0] % 3 == 0);
    let mut c = compiler_with(vec![]);
    let r = ManuallyDrop::new(c.compile_block_statement(&stmts[..]));
    assert!(r.is_ok());
    assert!(unsafe { STMT_CALLS } == n);
    assert!(unsafe { STMT_DEPTH_OK }, "a statement of the block was compiled at the block's own depth");
    assert!(unsafe { STMT_ORDER_OK });
    assert!(unsafe { DEPTH } == 0);
}

// A twin of the Stmt::Block arm (compile_statement on `{}` / `{ ja }`, everything real) was tried after seeded change
// C11-8 and does NOT finish: calling the real compile_statement makes CBMC unwind the whole recursive generator
// (> 20 min for two concrete inputs). The arm stays with its Verus contract (O12.4); a change that removes the
// statements its ghost hints are anchored on is reported as UNDECIDED.
