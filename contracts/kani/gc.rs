//! Contracts (harness form) on the real collector, src/gc.rs (child module of crate::gc in the overlay).
//! Oracle: reachability computed by hand for the tiny object universe of each harness (bounded stand-ins).
use super::*;
use crate::object::FromVec;
use std::mem::ManuallyDrop;

fn managed(gc: &GC, o: Object) -> bool {
    let mut i = 0;
    let mut found = false;
    while i < gc.objects.len() {
        if std::ptr::eq(gc.objects[i].as_ptr(), o.as_ptr()) { found = true; }
        i += 1;
    }
    found
}

/// NOT REGISTERED (does not finish: bitvec) - kept as the executable statement of the collector's contract.
/// O03.2 / O04.2 [bounded: universe of two floats and one array holding the first float; symbolic root set]
/// GC::run(roots): every object reachable from the roots is still managed, allocated and UNCHANGED; every
/// unreachable one is no longer managed (and has been released: CBMC's double-free / use-after-free checks
/// watch the real `free`); managed set == reachable set.
#[kani::proof]
#[kani::unwind(6)]
fn c03_run_universe3() {
    let (x, y): (f64, f64) = (kani::any(), kani::any());
    let mut gc = ManuallyDrop::new(GC::new());
    gc.objects.reserve(4);
    let f1 = Object::float(x, &mut gc);
    let f2 = Object::float(y, &mut gc);
    let arr = Object::array(vec![f1, Object::int(7)], &mut gc);
    assert!(gc.objects.len() == 3);
    let (root_arr, root_f2, root_f1): (bool, bool, bool) = (kani::any(), kani::any(), kani::any());
    kani::cover!(root_arr && !root_f2 && !root_f1);
    kani::cover!(!root_arr && !root_f2 && !root_f1);
    let null = Object::null();
    let roots = [if root_arr { arr } else { null }, if root_f2 { f2 } else { null }, if root_f1 { f1 } else { null }, Object::int(1)];
    gc.run(&[&roots[0..2], &roots[2..4]]);
    let live_f1 = root_f1 || root_arr;
    assert!(managed(&gc, arr) == root_arr);
    assert!(managed(&gc, f1) == live_f1);
    assert!(managed(&gc, f2) == root_f2);
    assert!(gc.objects.len() == (root_arr as usize) + (live_f1 as usize) + (root_f2 as usize));
    // survivors are allocated and unchanged
    if live_f1 { assert!(f1.as_f64().to_bits() == x.to_bits()); }
    if root_f2 { assert!(f2.as_f64().to_bits() == y.to_bits()); }
    if root_arr {
        assert!(arr.as_vec().len() == 2);
        assert!(std::ptr::eq(arr.as_vec()[0].as_ptr(), f1.as_ptr()));
        assert!(arr.as_vec()[1].as_int() == 7);
    }
    // O04: when the collector goes away, everything still managed is released exactly once, nothing remains
    gc.destroy();
    assert!(gc.objects.len() == 0);
}

/// NOT REGISTERED (does not finish: bitvec).
/// O04.3 [bounded: same universe] untrace(o) removes exactly o and what o refers to from the collector's
/// ownership WITHOUT releasing it (the caller owns it from now on); the rest stays managed
#[kani::proof]
#[kani::unwind(6)]
fn c04_untrace_result() {
    let (x, y): (f64, f64) = (kani::any(), kani::any());
    let mut gc = ManuallyDrop::new(GC::new());
    gc.objects.reserve(4);
    let f1 = Object::float(x, &mut gc);
    let f2 = Object::float(y, &mut gc);
    let arr = Object::array(vec![f1], &mut gc);
    let which: u8 = kani::any();
    kani::assume(which < 4);
    kani::cover!(which == 2);
    let result = match which { 0 => f1, 1 => f2, 2 => arr, _ => Object::int(3) };
    gc.untrace(result);
    assert!(managed(&gc, f1) == !(which == 0 || which == 2));
    assert!(managed(&gc, f2) == (which != 1));
    assert!(managed(&gc, arr) == (which != 2));
    // the collector goes away: what it still manages is released, the result graph is still valid
    gc.destroy();
    assert!(gc.objects.len() == 0);
    match which {
        0 => { assert!(f1.as_f64().to_bits() == x.to_bits()); f1.free(); }
        1 => { assert!(f2.as_f64().to_bits() == y.to_bits()); f2.free(); }
        2 => { assert!(arr.as_vec().len() == 1 && arr.as_vec()[0].as_f64().to_bits() == x.to_bits()); arr.free_recursive(); }
        _ => (),
    }
}

/// O03.1  every heap constructor registers its result with the collector exactly once; immediates are never
/// registered; maybe_trace registers a heap object only if it is not managed yet
#[kani::proof]
#[kani::unwind(5)]
fn c03_constructors_register() {
    let mut gc = ManuallyDrop::new(GC::new());
    gc.objects.reserve(4);
    let f = Object::float(kani::any(), &mut gc);
    assert!(gc.objects.len() == 1 && managed(&gc, f));
    let a = Object::array(Vec::new(), &mut gc);
    assert!(gc.objects.len() == 2 && managed(&gc, a));
    gc.maybe_trace(Object::int(kani::any::<i32>() as isize));
    gc.maybe_trace(Object::null());
    gc.maybe_trace(Object::bool(kani::any()));
    assert!(gc.objects.len() == 2);
    gc.maybe_trace(f);
    assert!(gc.objects.len() == 2);
}

/// NOT REGISTERED (does not finish: > 900 s even for GC::mark alone on two objects - the real bitvec index / set).
/// O03.m [bounded: two managed objects - a float and an array that holds it (plus an immediate) - all-unmarked bitmap]
/// GC::mark on the real code (real bitvec): marking the array marks the array AND what it refers to; marking the
/// float marks the float only; marking an immediate or an unmanaged object marks nothing.
#[kani::proof]
#[kani::unwind(6)]
fn c03_mark_reaches_elements() {
    let mut gc = ManuallyDrop::new(GC::new());
    gc.objects.reserve(4);
    let f = Object::float(1.5, &mut gc);
    let arr = Object::array(vec![f, Object::int(7)], &mut gc);
    gc.reset_marks();
    let which: u8 = kani::any();
    kani::assume(which <= 2);
    match which {
        0 => { gc.mark(&arr); assert!(gc.mark_bitmap[0] && gc.mark_bitmap[1]); }
        1 => { gc.mark(&f); assert!(gc.mark_bitmap[0] && !gc.mark_bitmap[1]); }
        _ => { gc.mark(&Object::int(3)); assert!(!gc.mark_bitmap[0] && !gc.mark_bitmap[1]); }
    }
    assert!(gc.objects.len() == 2 && gc.mark_bitmap.len() == 2);
}
