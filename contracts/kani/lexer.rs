//! Contracts (harness form) on src/lexer.rs (child module of crate::lexer in the overlay).
use super::*;

/// O07.4w  is_whitespace is exactly the documented set, for EVERY char
#[kani::proof]
#[kani::unwind(2)]
fn c07_is_whitespace() {
    let c: char = kani::any();
    kani::cover!(c == '\u{2029}');
    let want = matches!(c as u32, 0x09 | 0x0A | 0x0B | 0x0C | 0x0D | 0x20 | 0x85 | 0x200E | 0x200F | 0x2028 | 0x2029);
    assert!(is_whitespace(c) == want);
}
