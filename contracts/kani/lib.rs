//! Contract (harness form) on `nederlang::eval` (src/lib.rs): the order of the pipeline stages.
use super::*;
use crate::compiler::Bytecode;
use std::mem::ManuallyDrop;

static mut STAGE: [u8; 3] = [0, 0, 0]; // how often parse / compile / run were entered
static mut FAIL_AT: u8 = 0;            // which stage reports an error (0 = none)

fn parse_rec(_program: &str) -> Result<crate::ast::BlockStmt, Error> {
    unsafe { STAGE[0] += 1; }
    if unsafe { FAIL_AT } == 1 { Err(Error::SyntaxError(String::new())) } else { Ok(Vec::new()) }
}
fn compile_rec(_c: &mut Compiler, _ast: &crate::ast::BlockStmt) -> Result<Bytecode, Error> {
    unsafe { STAGE[1] += 1; assert!(STAGE[0] == 1); }
    if unsafe { FAIL_AT } == 2 { Err(Error::ReferenceError(String::new())) } else { Ok(Bytecode { constants: Vec::new(), instructions: Vec::new() }) }
}
fn run_rec(_vm: &mut VM, _code: Bytecode) -> Result<Object, Error> {
    unsafe { STAGE[2] += 1; assert!(STAGE[0] == 1 && STAGE[1] == 1); }
    if unsafe { FAIL_AT } == 3 { Err(Error::TypeError(String::new())) } else { Ok(Object::null()) }
}

/// O09.2  eval runs the machine only after parsing AND compiling have succeeded, each stage once, in that order;
/// an error of a stage is returned as it is. So a reference error (a compile-time error, O09.3a) is raised
/// before the program can produce any output.
#[kani::proof]
#[kani::unwind(4)]
#[kani::stub(crate::parser::parse, parse_rec)]
#[kani::stub(crate::compiler::Compiler::compile_ast, compile_rec)]
#[kani::stub(crate::vm::VM::run, run_rec)]
fn c09_eval_order() {
    let f: u8 = kani::any();
    kani::assume(f <= 3);
    kani::cover!(f == 2);
    kani::cover!(f == 0);
    unsafe { FAIL_AT = f; STAGE = [0, 0, 0]; }
    let r = ManuallyDrop::new(eval("x"));
    let st = unsafe { STAGE };
    match f {
        1 => assert!(matches!(&*r, Err(Error::SyntaxError(_))) && st[0] == 1 && st[1] == 0 && st[2] == 0),
        2 => assert!(matches!(&*r, Err(Error::ReferenceError(_))) && st[0] == 1 && st[1] == 1 && st[2] == 0),
        3 => assert!(matches!(&*r, Err(Error::TypeError(_))) && st[0] == 1 && st[1] == 1 && st[2] == 1),
        _ => assert!(r.is_ok() && st[0] == 1 && st[1] == 1 && st[2] == 1),
    }
}
