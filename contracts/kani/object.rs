//! Contracts (harness form) on the real functions of src/object.rs.
//! This file is compiled as a child module `verif_kani` of `crate::object` in a per-run overlay copy
//! of /repo (one appended `#[cfg(kani)] #[path=..] mod verif_kani;` line) so that it sees the private
//! items; the function bodies Kani verifies are byte-identical to /repo's.
//!
//! Conventions: every harness carries `#[kani::unwind(k)]` (unwinding assertions stay on, so "the code
//! reached under the precondition is loop-free / bounded by k" is itself proved) and, when an error
//! path can be reached, stubs `std::fmt::format` (error *text* is not specified, error *kind* is).
//! Each harness has a `kani::cover!` after its assumptions (vacuity guard).
use super::*;

pub fn fmt_stub(_args: std::fmt::Arguments<'_>) -> RString {
    RString::new()
}

/// A collector that is never dropped: `Drop for GC` runs sweep + bitvec iteration, which costs CBMC minutes
/// per harness and is not what the operator contracts are about (the collector has its own obligations).
pub fn new_gc() -> std::mem::ManuallyDrop<GC> {
    std::mem::ManuallyDrop::new(GC::new())
}
/// Results are not dropped either (dropping an Err(String) drags the deallocation model into every query).
pub fn keep<T>(r: T) -> std::mem::ManuallyDrop<T> {
    std::mem::ManuallyDrop::new(r)
}

/// precondition shared by everything that takes a language-level integer: the 61-bit range
pub fn any_int() -> isize {
    let v: isize = kani::any();
    kani::assume(v >= MIN_INT && v <= MAX_INT);
    v
}

/// any immediate (non-heap) object that the constructors can produce
pub fn any_immediate() -> Object {
    let k: u8 = kani::any();
    match k % 4 {
        0 => Object::null(),
        1 => Object::bool(kani::any()),
        2 => Object::int(any_int()),
        _ => Object::function(kani::any(), kani::any()),
    }
}

// ------------------------------------------------------------------------------------------
// C15  value encoding
// ------------------------------------------------------------------------------------------

/// O15.1  int: requires MIN_INT <= v <= MAX_INT  ensures tag==Int, as_int==v, immediate.
/// The debug_assert inside `int` is proved unreachable under the precondition (debug == release).
#[kani::proof]
#[kani::unwind(2)]
fn c15_int_roundtrip() {
    let v = any_int();
    kani::cover!(v == MIN_INT);
    kani::cover!(v == MAX_INT);
    let o = Object::int(v);
    assert!(o.tag() == Type::Int);
    assert!(o.as_int() == v);
    assert!(!o.is_heap_allocated());
}

/// O15.2  int is injective and `==` (the real PartialEq::eq) decides it
#[kani::proof]
#[kani::unwind(2)]
fn c15_int_injective() {
    let a = any_int();
    let b = any_int();
    kani::cover!(a != b);
    kani::cover!(a == b);
    let (oa, ob) = (Object::int(a), Object::int(b));
    assert!((oa == ob) == (a == b));
    assert!((oa.0 == ob.0) == (a == b));
}

/// O15.3  null / bool: tags, read-back, three pairwise distinct words
#[kani::proof]
#[kani::unwind(2)]
fn c15_null_bool() {
    let b: bool = kani::any();
    kani::cover!(b);
    let o = Object::bool(b);
    assert!(o.tag() == Type::Bool);
    assert!(o.as_bool() == b);
    assert!(!o.is_heap_allocated());
    let n = Object::null();
    assert!(n.tag() == Type::Null);
    assert!(!n.is_heap_allocated());
    assert!(n != o);
    assert!(Object::bool(true) != Object::bool(false));
    assert!(Object::bool(b) == o);
    assert!(n == Object::null());
}

/// O15.4  function descriptors: every (u32, u16) pair is read back; injective; `==` decides it
#[kani::proof]
#[kani::unwind(2)]
fn c15_function_roundtrip() {
    let ip: u32 = kani::any();
    let n: u16 = kani::any();
    let ip2: u32 = kani::any();
    let n2: u16 = kani::any();
    kani::cover!(ip == u32::MAX && n == u16::MAX);
    let o = Object::function(ip, n);
    assert!(o.tag() == Type::Function);
    assert!(!o.is_heap_allocated());
    let f = o.as_function();
    assert!(f[0] == ip && f[1] == n as u32);
    let o2 = Object::function(ip2, n2);
    assert!((o == o2) == (ip == ip2 && n == n2));
}

/// O15.5  `tag` is total and correct on every word whose low three bits are <= 6, and the
/// constructors never produce low bits 7 (transmute of 7 would be undefined behaviour).
#[kani::proof]
#[kani::unwind(2)]
fn c15_tag_total() {
    let w: usize = kani::any();
    kani::assume(w & TAG_MASK <= 6);
    kani::cover!(w & TAG_MASK == 6);
    let t = Object(w as *mut u8).tag();
    assert!(t as usize == w & TAG_MASK);
    // is_heap_allocated derives from the tag order
    let h = Object(w as *mut u8).is_heap_allocated();
    assert!(h == (w & TAG_MASK >= 4));
    // with_type on an 8-aligned payload: tag bits exactly t, payload recoverable
    let p: usize = kani::any();
    kani::assume(p & TAG_MASK == 0);
    let k: u8 = kani::any();
    kani::assume(k <= 6);
    let ty: Type = unsafe { std::mem::transmute(k) };
    let o = Object::with_type(p as *mut u8, ty);
    assert!(o.0 as usize & TAG_MASK == k as usize);
    assert!(o.as_ptr() as usize == p);
    // immediates produced by the constructors have tag bits <= 3
    let i = any_immediate();
    assert!(i.0 as usize & TAG_MASK <= 3);
    assert!(!i.is_heap_allocated());
}

/// O15.6  immediates of different type never compare equal; of equal type iff equal content
#[kani::proof]
#[kani::unwind(2)]
fn c15_cross_type() {
    let a = any_immediate();
    let b = any_immediate();
    kani::cover!(a.tag() != b.tag());
    kani::cover!(a.tag() == b.tag() && a.0 != b.0);
    if a.tag() != b.tag() {
        assert!(a != b);
    } else {
        assert!((a == b) == (a.0 == b.0));
    }
}

/// O15.7  floats: every one of the 2^64 bit patterns is read back bit-identically through the tagged
/// pointer (tag bits travel through the int<->ptr casts), type reported, `==` is IEEE equality
#[kani::proof]
#[kani::unwind(2)]
fn c15_float_roundtrip() {
    let v: f64 = kani::any();
    let w: f64 = kani::any();
    kani::cover!(v.is_nan());
    kani::cover!(v == 0.0 && v.is_sign_negative());
    let o = Float::from_f64(v);
    let p = Float::from_f64(w);
    assert!(o.tag() == Type::Float);
    assert!(o.is_heap_allocated());
    assert!(o.as_f64().to_bits() == v.to_bits());
    assert!(unsafe { o.as_f64_unchecked() }.to_bits() == v.to_bits());
    assert!((o == p) == (v == w));
    // a float never equals an immediate
    let i = any_immediate();
    assert!(o != i);
    o.free();
    p.free();
}

/// O15.8a [bounded: one concrete pair of texts per harness - symbolic text is out of CBMC's reach here:
/// cost grows 4x per additional case and memcpy through a symbolic pointer gives spurious failures]
/// text read back, type, equality by content, each block released once.
pub fn string_pair_contract(s: &'static str, t: &'static str) {
    let o = String::from_string(s.to_string());
    let p = String::from_string(t.to_string());
    assert!(o.tag() == Type::String && p.tag() == Type::String);
    assert!(o.is_heap_allocated());
    assert!(o.as_str() == s);
    assert!(p.as_str() == t);
    assert!((o == p) == (s == t));
    assert!(o != Object::null() && o != Object::int(0) && o != Object::bool(false));
    o.free();
    p.free();
}
#[kani::proof]
#[kani::unwind(5)]
fn c15_string_pair_eq() {
    string_pair_contract("ab", "ab");
}
#[kani::proof]
#[kani::unwind(5)]
fn c15_string_pair_neq() {
    string_pair_contract("a\"", "ab");
}
#[kani::proof]
#[kani::unwind(5)]
fn c15_string_pair_utf8() {
    string_pair_contract("\u{e9}", "");
}

/// O15.8b [bounded: arrays of <= 2 elements, elements any immediate] array read back element by element
#[kani::proof]
#[kani::unwind(4)]
fn c15_array_roundtrip() {
    let n: usize = kani::any();
    kani::assume(n <= 2);
    kani::cover!(n == 2);
    let e0 = any_immediate();
    let e1 = any_immediate();
    let mut v = Vec::new();
    if n >= 1 { v.push(e0); }
    if n >= 2 { v.push(e1); }
    let o = Array::from_vec(v);
    assert!(o.tag() == Type::Array);
    assert!(o.is_heap_allocated());
    assert!(o.as_vec().len() == n);
    if n >= 1 { assert!(o.as_vec()[0].0 == e0.0); }
    if n >= 2 { assert!(o.as_vec()[1].0 == e1.0); }
    // the elements are immediates: releasing the array word releases everything (free_recursive - with its list of
    // visited objects since fix d19fc0f - is under its own contract, O04.release, and costs CBMC > 20 min here)
    o.free();
}

// ------------------------------------------------------------------------------------------
// C06  operators
// ------------------------------------------------------------------------------------------

fn in_range(v: isize) -> bool {
    v >= MIN_INT && v <= MAX_INT
}

/// contract of an integer arithmetic operator (harness form; the functions are macro-generated and
/// cannot carry attributes):  requires both operands in the 61-bit range
///   ensures  exact ∈ range  ==> Ok(Int(exact))      (mathematically exact, i128 oracle)
///            exact ∉ range or undefined ==> Err(_)   (never a wrapped value, never a panic)
/// (the sum/difference of two 61-bit values cannot overflow the 64-bit oracle)
macro_rules! int_arith_contract {
    ($name:ident, $method:ident, |$a:ident, $b:ident| $exact:expr) => {
        #[kani::proof]
        #[kani::unwind(2)]
        #[kani::stub(std::fmt::format, fmt_stub)]
        fn $name() {
            let $a = any_int();
            let $b = any_int();
            let mut gc = new_gc();
            let exact: Option<isize> = $exact;
            kani::cover!(exact.is_none() || !in_range(exact.unwrap()));
            kani::cover!($a < 0 && $b > 0);
            let r = keep(Object::int($a).$method(Object::int($b), &mut gc));
            match exact {
                Some(m) if in_range(m) => match &*r {
                    Ok(o) => {
                        assert!(o.tag() == Type::Int);
                        assert!(o.as_int() == m);
                    }
                    Err(_) => assert!(false, "exact result in range must not be an error"),
                },
                _ => assert!(r.is_err(), "out-of-range or undefined result must be an error"),
            }
        }
    };
}
int_arith_contract!(c06_add_int, add, |a, b| Some(a + b));
int_arith_contract!(c06_sub_int, sub, |a, b| Some(a - b));

/// mul / div / rem: exactness over mathematical integers is proved by Verus (unit c06_arith, O06.2);
/// equivalence of two 64-bit multipliers/dividers is SAT-hard. Kani proves here, for ALL operands, that
/// the same functions never panic and answer with Int or Err, and that a zero divisor is an error.
macro_rules! int_arith_total {
    ($name:ident, $method:ident, $zero_is_error:expr) => {
        #[kani::proof]
        #[kani::unwind(2)]
        #[kani::stub(std::fmt::format, fmt_stub)]
        fn $name() {
            let a = any_int();
            let b = any_int();
            let mut gc = new_gc();
            kani::cover!(b == 0);
            kani::cover!(a == MIN_INT && b == -1);
            let r = keep(Object::int(a).$method(Object::int(b), &mut gc));
            match &*r {
                Ok(o) => {
                    assert!(o.tag() == Type::Int);
                    assert!(!($zero_is_error && b == 0));
                    assert!(o.as_int() >= MIN_INT && o.as_int() <= MAX_INT);
                }
                Err(e) => assert!(matches!(e, Error::TypeError(_))),
            }
        }
    };
}
int_arith_total!(c06_mul_int_total, mul, false);
int_arith_total!(c06_div_int_total, div, true);
int_arith_total!(c06_rem_int_total, rem, true);

/// the six comparisons on Int x Int equal the comparison of the integers (total order agreeing with as_int)
macro_rules! int_cmp_contract {
    ($name:ident, $method:ident, $op:tt) => {
        #[kani::proof]
        #[kani::unwind(2)]
        #[kani::stub(std::fmt::format, fmt_stub)]
        fn $name() {
            let a = any_int();
            let b = any_int();
            let mut gc = new_gc();
            kani::cover!(a < 0 && b > 0);
            kani::cover!(a == b);
            let r = keep(Object::int(a).$method(Object::int(b), &mut gc));
            match &*r {
                Ok(o) => {
                    assert!(o.tag() == Type::Bool);
                    assert!(o.as_bool() == (a $op b));
                }
                Err(_) => assert!(false, "comparison of two ints must not fail"),
            }
        }
    };
}
int_cmp_contract!(c06_lt_int, lt, <);
int_cmp_contract!(c06_lte_int, lte, <=);
int_cmp_contract!(c06_gt_int, gt, >);
int_cmp_contract!(c06_gte_int, gte, >=);
int_cmp_contract!(c06_eq_int, eq, ==);
int_cmp_contract!(c06_neq_int, neq, !=);

/// floats: the result is bit-identical to Rust's / IEEE-754's result for ALL 2^64 x 2^64 operand pairs
macro_rules! float_arith_contract {
    ($name:ident, $method:ident, $op:tt) => {
        #[kani::proof]
        #[kani::unwind(2)]
        #[kani::stub(std::fmt::format, fmt_stub)]
        fn $name() {
            let x: f64 = kani::any();
            let y: f64 = kani::any();
            let mut gc = new_gc();
            kani::cover!(x.is_nan());
            kani::cover!(y == 0.0);
            let a = Object::float(x, &mut gc);
            let b = Object::float(y, &mut gc);
            let r = keep(a.$method(b, &mut gc));
            match &*r {
                Ok(o) => {
                    assert!(o.tag() == Type::Float);
                    let want: f64 = x $op y;
                    assert!(o.as_f64().to_bits() == want.to_bits() || (o.as_f64().is_nan() && want.is_nan()));
                }
                Err(_) => assert!(false, "float arithmetic must not fail"),
            }
        }
    };
}
float_arith_contract!(c06_add_float, add, +);
float_arith_contract!(c06_sub_float, sub, -);

/// MODULAR contracts for the Float arm. The two callees of the arm are replaced by their contracts:
/// `as_f64_unchecked` returns the payload stored for that word (proved on the real function by O15.7
/// c15_float_roundtrip) and `Object::float(v, gc)` yields a Float word whose payload is v (O15.7 + O03.1).
static mut GHOST_A: (usize, f64) = (0, 0.0);
static mut GHOST_B: (usize, f64) = (0, 0.0);
static mut GHOST_OUT: Option<f64> = None;
pub unsafe fn as_f64_contract(o: Object) -> f64 {
    // PROVED-BY: O15.7 (the payload written by Float::from_f64 is the payload read back)
    if o.0 as usize == GHOST_A.0 { GHOST_A.1 } else { GHOST_B.1 }
}
pub fn float_contract(value: f64, _gc: &mut GC) -> Object {
    // PROVED-BY: O15.7, O03.1 (Object::float returns a Float-tagged word holding `value`, registered with gc)
    unsafe { GHOST_OUT = Some(value); }
    Object((0x7000 | Type::Float as usize) as *mut u8)
}
pub unsafe fn as_str_contract(_o: &Object) -> &str {
    // used only where the text is irrelevant (type-error contracts): any text will do
    ""
}
fn ghost_floats(x: f64, y: f64) -> (Object, Object) {
    let a = Object((0x1000 | Type::Float as usize) as *mut u8);
    let b = Object((0x2000 | Type::Float as usize) as *mut u8);
    unsafe { GHOST_A = (a.0 as usize, x); GHOST_B = (b.0 as usize, y); GHOST_OUT = None; }
    (a, b)
}
/// * / % on floats, ALL 2^64 x 2^64 payloads: the answer is Ok(Float word) whose payload was produced by
/// exactly one call of Object::float - never an error, never a panic. (Bit-exactness of the payload against an
/// oracle multiplier/divider is SAT-hard for CBMC - > 120 s even with one operand constant - and is listed
/// as undecided; + and - are proved bit-exact through the heap by c06_add_float / c06_sub_float.)
macro_rules! float_arith_total {
    ($name:ident, $method:ident) => {
        #[kani::proof]
        #[kani::unwind(2)]
        #[kani::stub(std::fmt::format, fmt_stub)]
        #[kani::stub(Object::as_f64_unchecked, as_f64_contract)]
        #[kani::stub(Object::float, float_contract)]
        fn $name() {
            let x: f64 = kani::any();
            let y: f64 = kani::any();
            kani::cover!(x.is_nan());
            kani::cover!(y == 0.0 && x.is_infinite());
            let (a, b) = ghost_floats(x, y);
            let mut gc = new_gc();
            match &*keep(a.$method(b, &mut gc)) {
                Ok(o) => {
                    assert!(o.tag() == Type::Float);
                    assert!(unsafe { GHOST_OUT }.is_some());
                }
                Err(_) => assert!(false, "float arithmetic must not fail"),
            }
        }
    };
}
float_arith_total!(c06_mul_float_total, mul);
float_arith_total!(c06_div_float_total, div);
float_arith_total!(c06_rem_float_total, rem);

/// [bounded: 4 concrete operand pairs] operand order and operator identity of float * / %
#[kani::proof]
#[kani::unwind(2)]
#[kani::stub(std::fmt::format, fmt_stub)]
#[kani::stub(Object::as_f64_unchecked, as_f64_contract)]
#[kani::stub(Object::float, float_contract)]
fn c06_float_points() {
    let mut gc = new_gc();
    let k: u8 = kani::any();
    kani::assume(k < 4);
    kani::cover!(k == 3);
    let (x, y) = match k { 0 => (6.0, 4.0), 1 => (-7.5, 2.0), 2 => (1.0, 0.0), _ => (0.0, -3.0) };
    let (a, b) = ghost_floats(x, y);
    assert!(keep(a.mul(b, &mut gc)).is_ok());
    assert!(unsafe { GHOST_OUT }.unwrap().to_bits() == (x * y).to_bits());
    assert!(keep(a.div(b, &mut gc)).is_ok());
    assert!(unsafe { GHOST_OUT }.unwrap().to_bits() == (x / y).to_bits());
    assert!(keep(a.rem(b, &mut gc)).is_ok());
    let r = unsafe { GHOST_OUT }.unwrap();
    assert!(r.to_bits() == (x % y).to_bits() || (r.is_nan() && (x % y).is_nan()));
}

macro_rules! float_cmp_contract {
    ($name:ident, $method:ident, $op:tt) => {
        #[kani::proof]
        #[kani::unwind(2)]
        #[kani::stub(std::fmt::format, fmt_stub)]
        fn $name() {
            let x: f64 = kani::any();
            let y: f64 = kani::any();
            let mut gc = new_gc();
            kani::cover!(x.is_nan());
            kani::cover!(x == 0.0 && y == 0.0 && x.is_sign_negative() != y.is_sign_negative());
            let a = Object::float(x, &mut gc);
            let b = Object::float(y, &mut gc);
            match &*keep(a.$method(b, &mut gc)) {
                Ok(o) => {
                    assert!(o.tag() == Type::Bool);
                    assert!(o.as_bool() == (x $op y));
                }
                Err(_) => assert!(false, "comparison of two floats must not fail"),
            }
        }
    };
}
float_cmp_contract!(c06_lt_float, lt, <);
float_cmp_contract!(c06_lte_float, lte, <=);
float_cmp_contract!(c06_gt_float, gt, >);
float_cmp_contract!(c06_gte_float, gte, >=);
float_cmp_contract!(c06_eq_float, eq, ==);
float_cmp_contract!(c06_neq_float, neq, !=);

/// ANY 64-bit word whose low three bits are a valid tag (<= 6): immediates with arbitrary payload, and for
/// the heap tags an arbitrary - in general dangling - address. Using such words as operands proves more than
/// the contract needs: the operator decides "type error" from the tags alone and never touches the heap
/// (CBMC would flag the dereference of a dangling address).
fn any_word_with_tag(k: u8) -> Object {
    let w: usize = kani::any();
    kani::assume(w & TAG_MASK == k as usize);
    Object(w as *mut u8)
}

/// One harness per operator (13 x 2): the operator is fixed syntactically, so CBMC explores one function.
/// The heavy callees (float allocation + collector registration, heap reads) are replaced by their contracts.
macro_rules! type_error_contracts {
    ($cross:ident, $same:ident, $method:ident, $opk:expr) => {
        #[kani::proof]
        #[kani::unwind(2)]
        #[kani::stub(std::fmt::format, fmt_stub)]
        #[kani::stub(Object::as_f64_unchecked, as_f64_contract)]
        #[kani::stub(Object::float, float_contract)]
        #[kani::stub(Object::as_str_unchecked, as_str_contract)]
        fn $cross() {
            // O06.5a  operands of different type: Err(TypeError) for all 42 ordered pairs of distinct types
            // and ALL payload words
            let mut gc = new_gc();
            let (ka, kb): (u8, u8) = (kani::any(), kani::any());
            kani::assume(ka < 7 && kb < 7 && ka != kb);
            kani::cover!(ka == 6 && kb == 5);
            kani::cover!(ka == 1 && kb == 4);
            let a = any_word_with_tag(ka);
            let b = any_word_with_tag(kb);
            let r = keep(a.$method(b, &mut gc));
            assert!(matches!(&*r, Err(Error::TypeError(_))));
        }
        #[kani::proof]
        #[kani::unwind(2)]
        #[kani::stub(std::fmt::format, fmt_stub)]
        #[kani::stub(Object::as_f64_unchecked, as_f64_contract)]
        #[kani::stub(Object::float, float_contract)]
        #[kani::stub(Object::as_str_unchecked, as_str_contract)]
        fn $same() {
            same_type_unsupported($opk, |a, b, gc| a.$method(b, gc));
        }
    };
}
type_error_contracts!(c06_cross_add, c06_same_add, add, 0);
type_error_contracts!(c06_cross_sub, c06_same_sub, sub, 1);
type_error_contracts!(c06_cross_mul, c06_same_mul, mul, 2);
type_error_contracts!(c06_cross_div, c06_same_div, div, 3);
type_error_contracts!(c06_cross_rem, c06_same_rem, rem, 4);
type_error_contracts!(c06_cross_lt, c06_same_lt, lt, 5);
type_error_contracts!(c06_cross_lte, c06_same_lte, lte, 6);
type_error_contracts!(c06_cross_gt, c06_same_gt, gt, 7);
type_error_contracts!(c06_cross_gte, c06_same_gte, gte, 8);
type_error_contracts!(c06_cross_eq, c06_same_eq, eq, 9);
type_error_contracts!(c06_cross_neq, c06_same_neq, neq, 10);
type_error_contracts!(c06_cross_and, c06_same_and, and, 11);
type_error_contracts!(c06_cross_or, c06_same_or, or, 12);

/// O06.5b  same type, unsupported operator, ALL payload words: arithmetic on null/bool/function/string/array
/// is a TypeError; `&&`/`||` only on bool x bool (exact truth table on the words bool() produces), TypeError
/// otherwise; ordering (< <= > >=) of arrays and functions is a TypeError; == / != on null, bool, function and
/// array words is decided by the words; nothing panics.
fn same_type_unsupported(op: u8, f: impl Fn(Object, Object, &mut GC) -> Result<Object, Error>) {
    let mut gc = new_gc();
    let k: u8 = kani::any();
    kani::assume(k == 0 || k == 2 || k == 3 || k == 5 || k == 6);
    kani::cover!(k == 6);
    kani::cover!(k == 3);
    let (a, b) = if k == 2 { (Object::bool(kani::any()), Object::bool(kani::any())) } else { (any_word_with_tag(k), any_word_with_tag(k)) };
    // strings: comparisons read the text (c06_string_cmp_*, concrete)
    kani::assume(!(k == 5 && op >= 5 && op <= 10));
    let r = keep(f(a, b, &mut gc));
    let r = &*r;
    if op < 5 {
        assert!(matches!(r, Err(Error::TypeError(_))));
    }
    if op >= 11 {
        if k == 2 {
            let want = if op == 11 { a.as_bool() && b.as_bool() } else { a.as_bool() || b.as_bool() };
            assert!(matches!(r, Ok(o) if o.tag() == Type::Bool && o.as_bool() == want));
        } else {
            assert!(matches!(r, Err(Error::TypeError(_))));
        }
    }
    if op >= 5 && op <= 8 && (k == 6 || k == 3) {
        assert!(matches!(r, Err(Error::TypeError(_))));
    }
    if op == 9 || op == 10 {
        assert!(matches!(r, Ok(o) if o.tag() == Type::Bool && o.as_bool() == ((a.0 == b.0) == (op == 9))));
    }
    if op >= 5 && op <= 8 && (k == 0 || k == 2) {
        // ordering of null / bool is not fixed by the documentation: a bool or a type error, no panic.
        // (The implementation compares the tagged words as raw pointers, which CBMC models imprecisely.)
        assert!(match r { Ok(o) => o.tag() == Type::Bool, Err(e) => matches!(e, Error::TypeError(_)) });
    }
}

/// O06.6 [bounded: concrete pairs] string comparisons equal byte-lexicographic order
fn string_cmp_contract(s: &'static str, t: &'static str, want: std::cmp::Ordering) {
    use std::cmp::Ordering::*;
    let mut gc = new_gc();
    let a = Object::string(s, &mut gc);
    let b = Object::string(t, &mut gc);
    let get = |r: Result<Object, Error>| match &*keep(r) { Ok(o) => { assert!(o.tag() == Type::Bool); o.as_bool() } Err(_) => { assert!(false); false } };
    assert!(get(a.lt(b, &mut gc)) == (want == Less));
    assert!(get(a.lte(b, &mut gc)) == (want != Greater));
    assert!(get(a.gt(b, &mut gc)) == (want == Greater));
    assert!(get(a.gte(b, &mut gc)) == (want != Less));
    assert!(get(a.eq(b, &mut gc)) == (want == Equal));
    assert!(get(a.neq(b, &mut gc)) == (want != Equal));
    assert!(matches!(&*keep(a.add(b, &mut gc)), Err(Error::TypeError(_))));
}
#[kani::proof]
#[kani::unwind(5)]
#[kani::stub(std::fmt::format, fmt_stub)]
fn c06_string_cmp_less() {
    string_cmp_contract("ab", "b", std::cmp::Ordering::Less);
}
#[kani::proof]
#[kani::unwind(5)]
#[kani::stub(std::fmt::format, fmt_stub)]
fn c06_string_cmp_prefix() {
    string_cmp_contract("ab", "a", std::cmp::Ordering::Greater);
}
#[kani::proof]
#[kani::unwind(5)]
#[kani::stub(std::fmt::format, fmt_stub)]
fn c06_string_cmp_equal() {
    string_cmp_contract("ab", "ab", std::cmp::Ordering::Equal);
}

/// O15.1r  `as_int` of ANY word is a 61-bit value (arithmetic shift by 3): the accessor contract that the
/// Verus units assume for Object::as_int.
#[kani::proof]
#[kani::unwind(2)]
fn c15_as_int_range() {
    let w: usize = kani::any();
    kani::cover!(w == usize::MAX);
    let v = Object(w as *mut u8).as_int();
    assert!(v >= MIN_INT && v <= MAX_INT);
    // and for Int words made by the constructor it is the constructor's argument (c15_int_roundtrip)
}

/// PROBE-ONLY (never run through CBMC: equivalence of two multipliers/dividers is SAT-hard). This is the
/// executable form of the Verus contract O06.2; when O06.2 fails, the driver runs it natively on the
/// boundary lattice of C06 to look for a concrete failing input.
#[kani::proof]
#[kani::unwind(2)]
fn c06_int_arith_exact_probe() {
    let op: u8 = kani::any();
    let a = any_int();
    let b = any_int();
    let mut gc = new_gc();
    let (oa, ob) = (Object::int(a), Object::int(b));
    let (r, exact): (Result<Object, Error>, Option<i128>) = match op % 5 {
        0 => (oa.add(ob, &mut gc), Some(a as i128 + b as i128)),
        1 => (oa.sub(ob, &mut gc), Some(a as i128 - b as i128)),
        2 => (oa.mul(ob, &mut gc), Some(a as i128 * b as i128)),
        3 => (oa.div(ob, &mut gc), if b == 0 { None } else { Some(a as i128 / b as i128) }),
        _ => (oa.rem(ob, &mut gc), if b == 0 { None } else { Some(a as i128 % b as i128) }),
    };
    match exact {
        Some(m) if m >= MIN_INT as i128 && m <= MAX_INT as i128 => match r {
            Ok(o) => assert!(o.tag() == Type::Int && o.as_int() as i128 == m),
            Err(_) => assert!(false, "exact result in range must not be an error"),
        },
        _ => assert!(r.is_err()),
    }
}
