//! Contracts (harness form) on the real functions of src/object.rs.
//! This file is compiled as a child module `verif_kani` of `crate::object` in a per-run overlay copy
//! of /repo (one appended `#[cfg(kani)] #[path=..] mod verif_kani;` line) so that it sees the private
//! items; the function bodies Kani verifies are byte-identical to /repo's.
//!
//! Conventions: every harness carries `#[kani::unwind(k)]` (unwinding assertions stay on, so "the code
//! reached under the precondition is loop-free / bounded by k" is itself proved) and, when an error
//! path can be reached, stubs `std::fmt::format` (error *text* is not specified, error *kind* is).
//! Each harness has a `kani::cover!` after its assumptions (vacuity guard).
use super::*;

pub fn fmt_stub(_args: std::fmt::Arguments<'_>) -> RString {
    RString::new()
}

/// precondition shared by everything that takes a language-level integer: the 61-bit range
pub fn any_int() -> isize {
    let v: isize = kani::any();
    kani::assume(v >= MIN_INT && v <= MAX_INT);
    v
}

/// any immediate (non-heap) object that the constructors can produce
pub fn any_immediate() -> Object {
    let k: u8 = kani::any();
    match k % 4 {
        0 => Object::null(),
        1 => Object::bool(kani::any()),
        2 => Object::int(any_int()),
        _ => Object::function(kani::any(), kani::any()),
    }
}

// ------------------------------------------------------------------------------------------
// C15  value encoding
// ------------------------------------------------------------------------------------------

/// O15.1  int: requires MIN_INT <= v <= MAX_INT  ensures tag==Int, as_int==v, immediate.
/// The debug_assert inside `int` is proved unreachable under the precondition (debug == release).
#[kani::proof]
#[kani::unwind(2)]
fn c15_int_roundtrip() {
    let v = any_int();
    kani::cover!(v == MIN_INT);
    kani::cover!(v == MAX_INT);
    let o = Object::int(v);
    assert!(o.tag() == Type::Int);
    assert!(o.as_int() == v);
    assert!(!o.is_heap_allocated());
}

/// O15.2  int is injective and `==` (the real PartialEq::eq) decides it
#[kani::proof]
#[kani::unwind(2)]
fn c15_int_injective() {
    let a = any_int();
    let b = any_int();
    kani::cover!(a != b);
    kani::cover!(a == b);
    let (oa, ob) = (Object::int(a), Object::int(b));
    assert!((oa == ob) == (a == b));
    assert!((oa.0 == ob.0) == (a == b));
}

/// O15.3  null / bool: tags, read-back, three pairwise distinct words
#[kani::proof]
#[kani::unwind(2)]
fn c15_null_bool() {
    let b: bool = kani::any();
    kani::cover!(b);
    let o = Object::bool(b);
    assert!(o.tag() == Type::Bool);
    assert!(o.as_bool() == b);
    assert!(!o.is_heap_allocated());
    let n = Object::null();
    assert!(n.tag() == Type::Null);
    assert!(!n.is_heap_allocated());
    assert!(n != o);
    assert!(Object::bool(true) != Object::bool(false));
    assert!(Object::bool(b) == o);
    assert!(n == Object::null());
}

/// O15.4  function descriptors: every (u32, u16) pair is read back; injective; `==` decides it
#[kani::proof]
#[kani::unwind(2)]
fn c15_function_roundtrip() {
    let ip: u32 = kani::any();
    let n: u16 = kani::any();
    let ip2: u32 = kani::any();
    let n2: u16 = kani::any();
    kani::cover!(ip == u32::MAX && n == u16::MAX);
    let o = Object::function(ip, n);
    assert!(o.tag() == Type::Function);
    assert!(!o.is_heap_allocated());
    let f = o.as_function();
    assert!(f[0] == ip && f[1] == n as u32);
    let o2 = Object::function(ip2, n2);
    assert!((o == o2) == (ip == ip2 && n == n2));
}

/// O15.5  `tag` is total and correct on every word whose low three bits are <= 6, and the
/// constructors never produce low bits 7 (transmute of 7 would be undefined behaviour).
#[kani::proof]
#[kani::unwind(2)]
fn c15_tag_total() {
    let w: usize = kani::any();
    kani::assume(w & TAG_MASK <= 6);
    kani::cover!(w & TAG_MASK == 6);
    let t = Object(w as *mut u8).tag();
    assert!(t as usize == w & TAG_MASK);
    // is_heap_allocated derives from the tag order
    let h = Object(w as *mut u8).is_heap_allocated();
    assert!(h == (w & TAG_MASK >= 4));
    // with_type on an 8-aligned payload: tag bits exactly t, payload recoverable
    let p: usize = kani::any();
    kani::assume(p & TAG_MASK == 0);
    let k: u8 = kani::any();
    kani::assume(k <= 6);
    let ty: Type = unsafe { std::mem::transmute(k) };
    let o = Object::with_type(p as *mut u8, ty);
    assert!(o.0 as usize & TAG_MASK == k as usize);
    assert!(o.as_ptr() as usize == p);
    // immediates produced by the constructors have tag bits <= 3
    let i = any_immediate();
    assert!(i.0 as usize & TAG_MASK <= 3);
    assert!(!i.is_heap_allocated());
}

/// O15.6  immediates of different type never compare equal; of equal type iff equal content
#[kani::proof]
#[kani::unwind(2)]
fn c15_cross_type() {
    let a = any_immediate();
    let b = any_immediate();
    kani::cover!(a.tag() != b.tag());
    kani::cover!(a.tag() == b.tag() && a.0 != b.0);
    if a.tag() != b.tag() {
        assert!(a != b);
    } else {
        assert!((a == b) == (a.0 == b.0));
    }
}

/// O15.7  floats: every one of the 2^64 bit patterns is read back bit-identically through the tagged
/// pointer (tag bits travel through the int<->ptr casts), type reported, `==` is IEEE equality
#[kani::proof]
#[kani::unwind(2)]
fn c15_float_roundtrip() {
    let v: f64 = kani::any();
    let w: f64 = kani::any();
    kani::cover!(v.is_nan());
    kani::cover!(v == 0.0 && v.is_sign_negative());
    let o = Float::from_f64(v);
    let p = Float::from_f64(w);
    assert!(o.tag() == Type::Float);
    assert!(o.is_heap_allocated());
    assert!(o.as_f64().to_bits() == v.to_bits());
    assert!(unsafe { o.as_f64_unchecked() }.to_bits() == v.to_bits());
    assert!((o == p) == (v == w));
    // a float never equals an immediate
    let i = any_immediate();
    assert!(o != i);
    o.free();
    p.free();
}

/// O15.8a [bounded: one concrete pair of texts per harness - symbolic text is out of CBMC's reach here:
/// cost grows 4x per additional case and memcpy through a symbolic pointer gives spurious failures]
/// text read back, type, equality by content, each block released once.
pub fn string_pair_contract(s: &'static str, t: &'static str) {
    let o = String::from_string(s.to_string());
    let p = String::from_string(t.to_string());
    assert!(o.tag() == Type::String && p.tag() == Type::String);
    assert!(o.is_heap_allocated());
    assert!(o.as_str() == s);
    assert!(p.as_str() == t);
    assert!((o == p) == (s == t));
    assert!(o != Object::null() && o != Object::int(0) && o != Object::bool(false));
    o.free();
    p.free();
}
#[kani::proof]
#[kani::unwind(5)]
fn c15_string_pair_eq() {
    string_pair_contract("ab", "ab");
}
#[kani::proof]
#[kani::unwind(5)]
fn c15_string_pair_neq() {
    string_pair_contract("a\"", "ab");
}
#[kani::proof]
#[kani::unwind(5)]
fn c15_string_pair_utf8() {
    string_pair_contract("\u{e9}", "");
}

/// O15.8b [bounded: arrays of <= 2 elements, elements any immediate] array read back element by element
#[kani::proof]
#[kani::unwind(4)]
fn c15_array_roundtrip() {
    let n: usize = kani::any();
    kani::assume(n <= 2);
    kani::cover!(n == 2);
    let e0 = any_immediate();
    let e1 = any_immediate();
    let mut v = Vec::new();
    if n >= 1 { v.push(e0); }
    if n >= 2 { v.push(e1); }
    let o = Array::from_vec(v);
    assert!(o.tag() == Type::Array);
    assert!(o.is_heap_allocated());
    assert!(o.as_vec().len() == n);
    if n >= 1 { assert!(o.as_vec()[0].0 == e0.0); }
    if n >= 2 { assert!(o.as_vec()[1].0 == e1.0); }
    o.free_recursive();
}
