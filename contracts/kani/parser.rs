//! Contracts (harness form) on the real functions of src/parser.rs (child module of crate::parser in the overlay).
//! The recursive-descent functions are checked MODULARLY: the functions they call (advance, parse_expr, ...) are
//! replaced by recorders, so each harness verifies one function body against its contract for all tokens.
use super::*;
use std::mem::ManuallyDrop;

pub fn fmt_stub(_args: std::fmt::Arguments<'_>) -> String {
    String::new()
}

/// every token kind (payload-carrying ones with an arbitrary fixed payload; the payload never matters for
/// precedence / operator mapping), chosen by a symbolic selector: 0..=36 covers the whole enum
fn any_token() -> Token<'static> {
    let k: u8 = kani::any();
    kani::assume(k <= 36);
    token_of(k)
}
fn token_of(k: u8) -> Token<'static> {
    match k {
        0 => Token::Identifier("x"), 1 => Token::Int("1"), 2 => Token::Float("1.0"), 3 => Token::String("s"),
        4 => Token::If, 5 => Token::Else, 6 => Token::Return, 7 => Token::Func, 8 => Token::While, 9 => Token::Declare,
        10 => Token::True, 11 => Token::False, 12 => Token::Break, 13 => Token::Continue,
        14 => Token::Lte, 15 => Token::Gte, 16 => Token::Eq, 17 => Token::Neq, 18 => Token::And, 19 => Token::Or,
        20 => Token::Assign, 21 => Token::Semi, 22 => Token::Comma, 23 => Token::Dot, 24 => Token::OpenParen, 25 => Token::CloseParen,
        26 => Token::OpenBrace, 27 => Token::CloseBrace, 28 => Token::OpenBracket, 29 => Token::CloseBracket, 30 => Token::Bang,
        31 => Token::Lt, 32 => Token::Gt, 33 => Token::Minus, 34 => Token::Plus, 35 => Token::Star, 36 => Token::Slash,
        37 => Token::Caret, 38 => Token::Percent, _ => Token::Illegal,
    }
}
fn rank(p: &Precedence) -> u8 {
    match p {
        Precedence::Lowest => 0, Precedence::Assign => 1, Precedence::OrAnd => 2, Precedence::Equals => 3, Precedence::LessGreater => 4,
        Precedence::Sum => 5, Precedence::Product => 6, Precedence::Method => 7, Precedence::Call => 8, Precedence::Index => 9,
    }
}
fn precedence_of_rank(r: u8) -> Precedence {
    match r {
        0 => Precedence::Lowest, 1 => Precedence::Assign, 2 => Precedence::OrAnd, 3 => Precedence::Equals, 4 => Precedence::LessGreater,
        5 => Precedence::Sum, 6 => Precedence::Product, 7 => Precedence::Method, 8 => Precedence::Call, _ => Precedence::Index,
    }
}

/// O07.1  the precedence of every token kind is the documented table:
/// * / %  >  + -  >  < <= > >=  >  == !=  >  && ||  >  =  ; call `(` and index `[` above every operator; every
/// other token has the lowest precedence (it ends an expression).
#[kani::proof]
#[kani::unwind(2)]
fn c07_precedence_table() {
    let k: u8 = kani::any();
    kani::assume(k <= 39);
    kani::cover!(k == 39);
    let t = token_of(k);
    let want = match t {
        Token::Star | Token::Slash | Token::Percent => 6,
        Token::Plus | Token::Minus => 5,
        Token::Lt | Token::Lte | Token::Gt | Token::Gte => 4,
        Token::Eq | Token::Neq => 3,
        Token::And | Token::Or => 2,
        Token::Assign => 1,
        Token::Dot => 7,
        Token::OpenParen => 8,
        Token::OpenBracket => 9,
        _ => 0,
    };
    assert!(rank(&t.precedence()) == want);
}

/// O07.1b  the derived ordering of Precedence is the declared order (the `<` used by the Pratt loop compares ranks)
#[kani::proof]
#[kani::unwind(2)]
fn c07_precedence_order() {
    let (a, b): (u8, u8) = (kani::any(), kani::any());
    kani::assume(a <= 9 && b <= 9);
    let (pa, pb) = (precedence_of_rank(a), precedence_of_rank(b));
    assert!(rank(&pa) == a && rank(&pb) == b);
    assert!((pa < pb) == (a < b));
    assert!((pa == pb) == (a == b));
}

/// O07.1c  operator tokens denote the documented operators (Operator::from)
#[kani::proof]
#[kani::unwind(2)]
fn c07_operator_of_token() {
    use crate::ast::Operator as Op;
    let k: u8 = kani::any();
    kani::assume(k <= 39);
    let t = token_of(k);
    let is_op = matches!(t, Token::Plus | Token::Minus | Token::Slash | Token::Star | Token::Percent | Token::And | Token::Or | Token::Gt | Token::Gte
        | Token::Lt | Token::Lte | Token::Eq | Token::Neq | Token::Bang | Token::Assign);
    kani::assume(is_op);
    let op = Op::from(t);
    let ok = match t {
        Token::Plus => op == Op::Add, Token::Minus => op == Op::Subtract, Token::Slash => op == Op::Divide, Token::Star => op == Op::Multiply,
        Token::Percent => op == Op::Modulo, Token::And => op == Op::And, Token::Or => op == Op::Or, Token::Gt => op == Op::Gt, Token::Gte => op == Op::Gte,
        Token::Lt => op == Op::Lt, Token::Lte => op == Op::Lte, Token::Eq => op == Op::Eq, Token::Neq => op == Op::Neq, Token::Bang => op == Op::Not,
        _ => op == Op::Assign,
    };
    assert!(ok);
}

// ---- recorders standing in for the callees (modular) ---------------------------------------------------
static mut NEXT_TOKEN: u8 = 39;          // token that `advance` makes current (39 = Illegal = end of input)
static mut ADVANCES: u8 = 0;
static mut PARSE_EXPR_CALLS: u8 = 0;
static mut PARSE_EXPR_RANK: u8 = 255;    // precedence argument of the last parse_expr call
static mut INFIX_CALLS: u8 = 0;
static mut OTHER_CALLS: u8 = 0;
const MARK: isize = 424242;              // the sub-expression returned by the parse_expr recorder

fn advance_rec<'a>(p: &mut Parser<'a>) where 'a: 'a {
    unsafe { ADVANCES += 1; p.current_token = token_of(NEXT_TOKEN); NEXT_TOKEN = 39; }
}
fn parse_expr_rec<'a>(_p: &mut Parser<'a>, precedence: Precedence) -> Result<Expr, ParseError> where 'a: 'a {
    unsafe { PARSE_EXPR_CALLS += 1; PARSE_EXPR_RANK = rank(&precedence); }
    Ok(Expr::Int { value: MARK })
}
fn infix_rec<'a>(p: &mut Parser<'a>, left: Expr) -> Result<Expr, ParseError> where 'a: 'a {
    unsafe { INFIX_CALLS += 1; }
    p.current_token = Token::Illegal;
    Ok(left)
}
fn other_rec<'a>(p: &mut Parser<'a>, left: Expr) -> Result<Expr, ParseError> where 'a: 'a {
    unsafe { OTHER_CALLS += 1; }
    p.current_token = Token::Illegal;
    Ok(left)
}
fn bool_rec<'a>(p: &mut Parser<'a>, value: bool) -> Expr where 'a: 'a {
    // leaves the token that follows the literal as current token
    unsafe { p.current_token = token_of(NEXT_TOKEN); NEXT_TOKEN = 39; }
    Expr::Bool { value }
}
fn parser_at(t: Token<'static>) -> ManuallyDrop<Parser<'static>> {
    ManuallyDrop::new(Parser { tokenizer: Tokenizer::new(""), current_token: t })
}

/// O07.2a  parse_infix_expr (for every binary operator token): the node is Infix{left, operator of the token,
/// right} where `right` is parsed with EXACTLY the operator's own precedence as binding power - which, with the
/// strict comparison of the Pratt loop (O07.2b), makes equal levels associate to the left; exactly one token
/// (the operator) is consumed before the right operand.
#[kani::proof]
#[kani::unwind(3)]
#[kani::stub(std::fmt::format, fmt_stub)]
#[kani::stub(Parser::advance, advance_rec)]
#[kani::stub(Parser::parse_expr, parse_expr_rec)]
fn c07_parse_infix() {
    use crate::ast::Operator as Op;
    let k: u8 = kani::any();
    kani::assume(k <= 39);
    let t = token_of(k);
    kani::assume(matches!(t, Token::Plus | Token::Minus | Token::Slash | Token::Star | Token::Percent | Token::And | Token::Or | Token::Gt | Token::Gte
        | Token::Lt | Token::Lte | Token::Eq | Token::Neq));
    kani::cover!(matches!(t, Token::Percent));
    let mut p = parser_at(t);
    unsafe { ADVANCES = 0; PARSE_EXPR_CALLS = 0; PARSE_EXPR_RANK = 255; NEXT_TOKEN = 10; }
    let want_rank = rank(&t.precedence());
    let want_op = Op::from(t);
    let r = ManuallyDrop::new(p.parse_infix_expr(Expr::Int { value: 7 }));
    match &*r {
        Ok(Expr::Infix { left, operator, right }) => {
            assert!(matches!(**left, Expr::Int { value: 7 }));
            assert!(matches!(**right, Expr::Int { value: MARK }));
            assert!(*operator == want_op);
            // what the code generator relies on (precondition of the dispatcher obligation O02.ind): an Infix node
            // never carries a prefix operator or the assignment
            assert!(!matches!(operator, Op::Not | Op::Negate | Op::Assign));
        }
        _ => assert!(false, "an infix node is expected"),
    }
    assert!(unsafe { ADVANCES } == 1 && unsafe { PARSE_EXPR_CALLS } == 1);
    assert!(unsafe { PARSE_EXPR_RANK } == want_rank);
}

/// O07.3  `a op= e` (operator followed by `=` after an identifier): Assign{a, Infix{a, op, e}} with e parsed at the
/// LOWEST precedence (the whole right-hand side), i.e. a += e means a = a + (e)
#[kani::proof]
#[kani::unwind(3)]
#[kani::stub(std::fmt::format, fmt_stub)]
#[kani::stub(Parser::advance, advance_rec)]
#[kani::stub(Parser::parse_expr, parse_expr_rec)]
fn c07_op_assign() {
    use crate::ast::Operator as Op;
    let k: u8 = kani::any();
    kani::assume(k <= 39);
    let t = token_of(k);
    kani::assume(matches!(t, Token::Plus | Token::Minus | Token::Slash | Token::Star | Token::Percent));
    let mut p = parser_at(t);
    unsafe { ADVANCES = 0; PARSE_EXPR_CALLS = 0; PARSE_EXPR_RANK = 255; NEXT_TOKEN = 20; } // next token: `=`
    let want_op = Op::from(t);
    let r = ManuallyDrop::new(p.parse_infix_expr(Expr::Identifier("a".to_string())));
    match &*r {
        Ok(Expr::Assign { left, right }) => {
            assert!(matches!(&**left, Expr::Identifier(n) if n.len() == 1));
            match &**right {
                Expr::Infix { left: l2, operator, right: r2 } => {
                    assert!(matches!(&**l2, Expr::Identifier(n) if n.len() == 1));
                    assert!(*operator == want_op);
                    assert!(!matches!(operator, Op::Not | Op::Negate | Op::Assign));
                    assert!(matches!(**r2, Expr::Int { value: MARK }));
                }
                _ => assert!(false),
            }
        }
        _ => assert!(false, "an assignment node is expected"),
    }
    assert!(unsafe { PARSE_EXPR_RANK } == 0 && unsafe { PARSE_EXPR_CALLS } == 1 && unsafe { ADVANCES } == 2);
}

/// O07.2b  the Pratt loop of parse_expr: after the first operand, an infix / call / index / assignment
/// continuation is taken if and only if the current token is not `;` and its precedence is STRICTLY higher
/// than the binding power the caller passed - for every token and every binding power.
#[kani::proof]
#[kani::unwind(3)]
#[kani::stub(std::fmt::format, fmt_stub)]
#[kani::stub(Parser::advance, advance_rec)]
#[kani::stub(Parser::parse_bool_expression, bool_rec)]
#[kani::stub(Parser::parse_infix_expr, infix_rec)]
#[kani::stub(Parser::parse_assign_expr, other_rec)]
#[kani::stub(Parser::parse_call_expr, other_rec)]
#[kani::stub(Parser::parse_index_expr, other_rec)]
fn c07_pratt_loop() {
    let k: u8 = kani::any();
    kani::assume(k <= 39);
    let following = token_of(k);
    let bp: u8 = kani::any();
    kani::assume(bp <= 9);
    kani::cover!(rank(&following.precedence()) == bp && bp == 5);
    let mut p = parser_at(Token::True);
    unsafe { INFIX_CALLS = 0; OTHER_CALLS = 0; NEXT_TOKEN = k; }
    let r = ManuallyDrop::new(p.parse_expr(precedence_of_rank(bp)));
    assert!(r.is_ok());
    let continued = unsafe { INFIX_CALLS + OTHER_CALLS } == 1;
    let is_continuation = matches!(following, Token::Lt | Token::Lte | Token::Gt | Token::Gte | Token::Eq | Token::Neq | Token::Plus | Token::Minus
        | Token::Slash | Token::Star | Token::And | Token::Or | Token::Percent | Token::Assign | Token::OpenParen | Token::OpenBracket);
    let want = is_continuation && bp < rank(&following.precedence());
    assert!(continued == want);
    assert!(unsafe { INFIX_CALLS + OTHER_CALLS } <= 1);
    // binary operators go to parse_infix_expr
    if want && !matches!(following, Token::Assign | Token::OpenParen | Token::OpenBracket) { assert!(unsafe { INFIX_CALLS } == 1); }
}

/// O07.4  skip_optional consumes at most one token, and only the one asked for
#[kani::proof]
#[kani::unwind(3)]
#[kani::stub(Parser::advance, advance_rec)]
fn c07_skip_optional() {
    let (k, w): (u8, u8) = (kani::any(), kani::any());
    kani::assume(k <= 39 && w <= 39 && (w == 21 || w == 22)); // `;` or `,`
    // payload-free tokens only (payload equality is a string comparison)
    kani::assume(k >= 4);
    let mut p = parser_at(token_of(k));
    unsafe { ADVANCES = 0; NEXT_TOKEN = 39; }
    p.skip_optional(token_of(w));
    assert!(unsafe { ADVANCES } == if k == w { 1 } else { 0 });
}

// ------------------------------------------------------------------------------------------
// C05  the parser's loops consume input on every iteration (termination), modular: `advance` is a recorder that
// feeds tokens from a ghost queue and counts how often it is called
// ------------------------------------------------------------------------------------------
static mut QUEUE: [u8; 6] = [39; 6];
static mut QPOS: usize = 0;
fn advance_queue<'a>(p: &mut Parser<'a>) where 'a: 'a {
    unsafe {
        ADVANCES += 1;
        p.current_token = if QPOS < 6 { token_of(QUEUE[QPOS]) } else { Token::Illegal };
        QPOS += 1;
    }
}
fn block_rec<'a>(_p: &mut Parser<'a>) -> Result<BlockStmt, ParseError> where 'a: 'a {
    unsafe { OTHER_CALLS += 1; }
    Ok(Vec::new())
}

/// O05.2a  parse_function_expr: for EVERY token after `functie (` and every token after that, the parameter loop
/// either consumes a token per iteration or stops with a SyntaxError - it never spins (the unwinding bound of
/// this harness is part of the contract: a loop that does not advance fails it)
#[kani::proof]
#[kani::unwind(5)]
#[kani::stub(std::fmt::format, fmt_stub)]
#[kani::stub(Parser::advance, advance_queue)]
#[kani::stub(Parser::parse_block_statement, block_rec)]
fn c05_function_params_progress() {
    let (a, b): (u8, u8) = (kani::any(), kani::any());
    kani::assume(a <= 39 && b <= 39);
    kani::cover!(a == 0 && b == 22);  // x ,
    kani::cover!(a == 1);             // functie ( 1   -> error
    unsafe { QUEUE = [24, a, b, 25, 25, 39]; QPOS = 0; ADVANCES = 0; OTHER_CALLS = 0; }
    let mut p = parser_at(Token::Func);
    let r = ManuallyDrop::new(p.parse_function_expr());
    // whatever the tokens: the call returned (no spin), and every loop iteration that did not fail consumed input
    match &*r {
        Ok(Expr::Function { parameters, .. }) => {
            assert!(parameters.len() <= 2);
            assert!(unsafe { OTHER_CALLS } == 1);
            assert!(unsafe { ADVANCES } as usize >= 3 + parameters.len());
        }
        Ok(_) => assert!(false),
        Err(e) => assert!(matches!(e, ParseError::SyntaxError(_))),
    }
}

/// O05.2b  the same contract over the five token CLASSES the loop can tell apart (identifier, `,`, `)`, any other
/// token, end of input), first token concrete per harness - small enough that a loop which stops consuming input is
/// reported as an unwinding failure (= violation of termination) instead of exhausting the solver (seeded change C05-3)
macro_rules! params_progress { ($name:ident, $ka:expr) => {
    #[kani::proof]
    #[kani::unwind(6)]
    #[kani::stub(std::fmt::format, fmt_stub)]
    #[kani::stub(Parser::advance, advance_queue)]
    #[kani::stub(Parser::parse_block_statement, block_rec)]
    fn $name() { params_progress_contract($ka); }
} }
params_progress!(c05_params_progress_ident, 0);
params_progress!(c05_params_progress_comma, 1);
params_progress!(c05_params_progress_close, 2);
params_progress!(c05_params_progress_other, 3);
params_progress!(c05_params_progress_eof, 4);
fn params_progress_contract(ka: usize) {
    const CLS: [u8; 5] = [0, 22, 25, 1, 39];
    let kb: usize = kani::any();
    kani::assume(kb < 5);
    kani::cover!(kb == 3);
    unsafe { QUEUE = [24, CLS[ka], CLS[kb], 25, 25, 39]; QPOS = 0; ADVANCES = 0; OTHER_CALLS = 0; }
    let mut p = parser_at(Token::Func);
    let r = ManuallyDrop::new(p.parse_function_expr());
    match &*r {
        Ok(Expr::Function { parameters, .. }) => {
            assert!(parameters.len() <= 2 && unsafe { OTHER_CALLS } == 1);
            assert!(unsafe { ADVANCES } as usize >= 3 + parameters.len());
        }
        Ok(_) => assert!(false),
        Err(e) => assert!(matches!(e, ParseError::SyntaxError(_))),
    }
}

// The list loops of parse_call_expr / parse_array_expr / parse_block_statement (arguments, elements, statements with
// optional separators) were put under the same kind of modular contract (element parser replaced by a recorder that
// consumes one token, tokens from the ghost queue, result compared with the grammar `element (sep? element)* sep?
// close`) and do NOT finish: pushing `Expr` values into the result Vec makes CBMC run > 20 min at 7-9 GB even for the
// single concrete input `[1, 1]` (measured at the end of the build). They stay without a contract (DESIGN.md 3.11).

// Modular harnesses for the remaining productions (parse_if_expr, parse_index_expr, parse_while_expr,
// parse_return_statement, parse_decl_statement; callees as recorders fed from the ghost queue) were written at the end of
// the build and do NOT finish either (> 15 min for the four of them, > 6 min for parse_index_expr alone): they stay
// without a contract (DESIGN.md 3.11).
