//! Contracts (harness form) on the real functions of src/symbols.rs (child module of crate::symbols in the overlay).
use super::*;
use std::mem::ManuallyDrop;

/// number of symbols in the scopes of the context that the harness does NOT materialise (ghost)
static mut OUTER_SYMBOLS: usize = 0;

/// Contract of Context::total_len as its callers see it: the symbols of all scopes = those of the enclosing scopes
/// (ghost count) + those of the innermost scope. PROVED-BY: c09_total_len (bounded, real fold).
fn total_len_contract(c: &Context) -> usize {
    unsafe { OUTER_SYMBOLS + c.symbols.last().map_or(0, |s| s.len()) }
}

/// O09.len  Context::total_len is the sum of the lengths of all scopes (the real iterator fold), so that
/// `enclosing scopes + innermost scope` (total_len_contract) is what it returns
#[kani::proof]
#[kani::unwind(5)]
fn c09_total_len() {
    let a: usize = kani::any();
    let b: usize = kani::any();
    let c: usize = kani::any();
    kani::assume(a <= 2 && b <= 2 && c <= 2);
    let mk = |n: usize| -> Vec<String> {
        let mut v = Vec::with_capacity(2);
        if n > 0 { v.push(String::new()); }
        if n > 1 { v.push(String::new()); }
        v
    };
    let ctx = ManuallyDrop::new(Context { scope: Scope::Local, max_size: 0, symbols: vec![mk(a), mk(b), mk(c)] });
    assert!(ctx.total_len() == a + b + c);
}

/// O05.sym  Context::define is total: whatever the number of symbols already declared in the context (in any
/// number of open scopes), declaring one more either yields the slot `count` (as u16) or an error value - never a
/// panic; an error leaves the context as it was.
#[kani::proof]
#[kani::unwind(4)]
#[kani::stub(Context::total_len, total_len_contract)]
fn c05_define_total() {
    let outer: usize = kani::any();
    kani::assume(outer <= usize::MAX / 2);
    unsafe { OUTER_SYMBOLS = outer; }
    kani::cover!(outer == 65534);
    kani::cover!(outer == 65535);
    // the innermost scope already holds one name (`a` or `b`: declaring `a` AGAIN must also claim a fresh slot - the
    // code compiled between the two declarations keeps using the first one); the ghost count covers the enclosing scopes
    let first_is_a: bool = kani::any();
    kani::cover!(first_is_a);
    let mut inner: Vec<String> = Vec::with_capacity(2);
    inner.push(name_of(first_is_a));
    let mut ctx = ManuallyDrop::new(Context { scope: Scope::Local, max_size: 7, symbols: vec![inner] });
    let r = ManuallyDrop::new(ctx.define("a"));
    match &*r {
        Ok(s) => {
            // slot == number of names declared before it in the context; the name is appended to the innermost scope
            assert!(outer + 1 <= u16::MAX as usize && s.index as usize == outer + 1 && s.scope == Scope::Local);
            assert!(ctx.symbols.len() == 1 && ctx.symbols[0].len() == 2 && ctx.max_size == 8);
            assert!(ctx.symbols[0][0].as_bytes() == (if first_is_a { b"a" } else { b"b" }) && ctx.symbols[0][1].as_bytes() == b"a");
        }
        Err(e) => {
            assert!(outer + 1 > u16::MAX as usize);
            assert!(matches!(e, Error::SyntaxError(_)));
            assert!(ctx.symbols.len() == 1 && ctx.symbols[0].len() == 1 && ctx.max_size == 7);
        }
    }
}

fn name_of(is_a: bool) -> String {
    let mut s = String::with_capacity(1);
    s.push(if is_a { 'a' } else { 'b' });
    s
}

/// O09.res  Context::resolve (real code: reverse scope walk, rposition, slot arithmetic) on every context of two
/// open scopes holding 0..=2 names each over {a, b}: the answer is the LAST declaration of the name in the INNERMOST
/// scope that has one, its slot is the number of names declared before it in the context, and a name that no open
/// scope declares is not found.
#[kani::proof]
#[kani::unwind(6)]
fn c09_resolve_two_scopes() {
    let n0: usize = kani::any();
    let n1: usize = kani::any();
    kani::assume(n0 <= 2 && n1 <= 2);
    let k: [bool; 4] = kani::any();
    let mut s0: Vec<String> = Vec::with_capacity(2);
    let mut s1: Vec<String> = Vec::with_capacity(2);
    if n0 > 0 { s0.push(name_of(k[0])); }
    if n0 > 1 { s0.push(name_of(k[1])); }
    if n1 > 0 { s1.push(name_of(k[2])); }
    if n1 > 1 { s1.push(name_of(k[3])); }
    let mut scopes = Vec::with_capacity(2);
    scopes.push(s0);
    scopes.push(s1);
    let ctx = ManuallyDrop::new(Context { scope: Scope::Local, max_size: 0, symbols: scopes });
    let r = ctx.resolve("a");
    // specification: flat list of the declarations in order; the answer is the last `a` of the inner scope if it has
    // one, else the last `a` of the outer scope
    let inner = if n1 > 1 && k[3] { Some(n0 + 1) } else if n1 > 0 && k[2] { Some(n0) } else { None };
    let outer = if n0 > 1 && k[1] { Some(1) } else if n0 > 0 && k[0] { Some(0) } else { None };
    let want = if inner.is_some() { inner } else { outer };
    match (r, want) {
        (Some(s), Some(w)) => assert!(s.index as usize == w && s.scope == Scope::Local),
        (None, None) => {}
        _ => assert!(false),
    }
}

/// O09.res3 [thorough tier]  the same contract as O09.res for THREE open scopes of 0..=2 names each: the specification
/// is written as the generic fold the Verus spec function slot_of unrolls to.
#[kani::proof]
#[kani::unwind(6)]
fn c09_resolve_three_scopes() {
    let n: [usize; 3] = [kani::any(), kani::any(), kani::any()];
    kani::assume(n[0] <= 2 && n[1] <= 2 && n[2] <= 2);
    let k: [[bool; 2]; 3] = [[kani::any(), kani::any()], [kani::any(), kani::any()], [kani::any(), kani::any()]];
    let mut scopes: Vec<Vec<String>> = Vec::with_capacity(3);
    let mut si = 0;
    while si < 3 {
        let mut sc: Vec<String> = Vec::with_capacity(2);
        if n[si] > 0 { sc.push(name_of(k[si][0])); }
        if n[si] > 1 { sc.push(name_of(k[si][1])); }
        scopes.push(sc);
        si += 1;
    }
    let ctx = ManuallyDrop::new(Context { scope: Scope::Global, max_size: 0, symbols: scopes });
    let r = ctx.resolve("a");
    // slot_of: innermost scope with a declaration of `a`, last declaration there, offset = names in the scopes below
    let mut want: Option<usize> = None;
    let mut below = 0;
    let mut si = 0;
    while si < 3 {
        let here = if n[si] > 1 && k[si][1] { Some(1) } else if n[si] > 0 && k[si][0] { Some(0) } else { None };
        if let Some(j) = here { want = Some(below + j); }
        below += n[si];
        si += 1;
    }
    match (r, want) {
        (Some(s), Some(w)) => assert!(s.index as usize == w && s.scope == Scope::Global),
        (None, None) => {}
        _ => assert!(false),
    }
}

/// O09.1k [bounded twin of O09.1w: N contexts - global, (an enclosing function f,) the current function - each with
/// one scope of 0..=1 names over {a, b}]  SymbolTable::resolve on the real code, whatever its syntactic form: the
/// current context first, then the GLOBAL context, NEVER the enclosing function's context; the table is unchanged.
macro_rules! table_resolve_twin { ($name:ident, $n:expr) => {
    #[kani::proof]
    #[kani::unwind(6)]
    fn $name() { table_resolve_contract($n); }
} }
table_resolve_twin!(c09_table_resolve_twin_1, 1);
table_resolve_twin!(c09_table_resolve_twin_2, 2);
table_resolve_twin!(c09_table_resolve_twin_3, 3);
fn ctx_with(scope: Scope, has: bool, is_a: bool) -> Context {
    let mut sc: Vec<String> = Vec::with_capacity(1);
    if has { sc.push(name_of(is_a)); }
    let mut scopes = Vec::with_capacity(1);
    scopes.push(sc);
    Context { scope, max_size: 0, symbols: scopes }
}
fn table_resolve_contract(n_ctx: usize) {
    let has: [bool; 3] = kani::any();
    let is_a: [bool; 3] = kani::any();
    let mut contexts: Vec<Context> = Vec::with_capacity(3);
    contexts.push(ctx_with(Scope::Global, has[0], is_a[0]));
    if n_ctx >= 2 { contexts.push(ctx_with(Scope::Local, has[1], is_a[1])); }
    if n_ctx >= 3 { contexts.push(ctx_with(Scope::Local, has[2], is_a[2])); }
    let mut t = ManuallyDrop::new(SymbolTable { contexts });
    let r = t.resolve("a");
    let cur = n_ctx - 1;
    let in_cur = has[cur] && is_a[cur];
    let in_global = has[0] && is_a[0];
    kani::cover!(in_cur);
    kani::cover!(!in_cur && !in_global);
    if in_cur {
        assert!(matches!(r, Some(s) if s.index == 0 && (s.scope == Scope::Global) == (cur == 0)));
    } else if n_ctx > 1 && in_global {
        assert!(matches!(r, Some(s) if s.index == 0 && s.scope == Scope::Global));
    } else {
        assert!(r.is_none());
    }
    assert!(t.contexts.len() == n_ctx);
}

/// O09.1g [bounded twin: the GLOBAL context with two open scopes (program scope + one top-level block) of 0..=1 names
/// each, and the current function context with one scope of 0..=1 names, names over {a, b}]  a function body sees the
/// globals of EVERY open global scope, innermost first, at the slot Context::resolve gives them
#[kani::proof]
#[kani::unwind(6)]
fn c09_table_resolve_twin_global_block() {
    let has: [bool; 3] = kani::any();
    let is_a: [bool; 3] = kani::any();
    let mut g_scopes: Vec<Vec<String>> = Vec::with_capacity(2);
    let mut s0: Vec<String> = Vec::with_capacity(1);
    if has[0] { s0.push(name_of(is_a[0])); }
    let mut s1: Vec<String> = Vec::with_capacity(1);
    if has[1] { s1.push(name_of(is_a[1])); }
    g_scopes.push(s0);
    g_scopes.push(s1);
    let mut contexts: Vec<Context> = Vec::with_capacity(2);
    contexts.push(Context { scope: Scope::Global, max_size: 0, symbols: g_scopes });
    contexts.push(ctx_with(Scope::Local, has[2], is_a[2]));
    let mut t = ManuallyDrop::new(SymbolTable { contexts });
    let r = t.resolve("a");
    let in_cur = has[2] && is_a[2];
    let in_block = has[1] && is_a[1];
    let in_prog = has[0] && is_a[0];
    kani::cover!(!in_cur && in_block);
    if in_cur {
        assert!(matches!(r, Some(s) if s.index == 0 && s.scope == Scope::Local));
    } else if in_block {
        assert!(matches!(r, Some(s) if s.index as usize == (if has[0] { 1 } else { 0 }) && s.scope == Scope::Global));
    } else if in_prog {
        assert!(matches!(r, Some(s) if s.index == 0 && s.scope == Scope::Global));
    } else {
        assert!(r.is_none());
    }
}

// Sequences of define calls (block / function scenarios on the real SymbolTable) were tried as harnesses
// c09_block_scope_restores and c09_function_contexts and do NOT finish in CBMC (2+2 declarations: out of memory;
// three declarations in nested contexts: > 600 s). The composition is done by the Verus lemmas of unit c09_names.
