//! Contracts (harness form) on the real functions of src/symbols.rs (child module of crate::symbols in the overlay).
use super::*;
use std::mem::ManuallyDrop;

/// number of symbols in the scopes of the context that the harness does NOT materialise (ghost)
static mut OUTER_SYMBOLS: usize = 0;

/// Contract of Context::total_len as its callers see it: the symbols of all scopes = those of the enclosing scopes
/// (ghost count) + those of the innermost scope. PROVED-BY: c09_total_len (bounded, real fold).
fn total_len_contract(c: &Context) -> usize {
    unsafe { OUTER_SYMBOLS + c.symbols.last().map_or(0, |s| s.len()) }
}

/// O09.len  Context::total_len is the sum of the lengths of all scopes (the real iterator fold), so that
/// `enclosing scopes + innermost scope` (total_len_contract) is what it returns
#[kani::proof]
#[kani::unwind(5)]
fn c09_total_len() {
    let a: usize = kani::any();
    let b: usize = kani::any();
    let c: usize = kani::any();
    kani::assume(a <= 2 && b <= 2 && c <= 2);
    let mk = |n: usize| -> Vec<String> {
        let mut v = Vec::with_capacity(2);
        if n > 0 { v.push(String::new()); }
        if n > 1 { v.push(String::new()); }
        v
    };
    let ctx = ManuallyDrop::new(Context { scope: Scope::Local, max_size: 0, symbols: vec![mk(a), mk(b), mk(c)] });
    assert!(ctx.total_len() == a + b + c);
}

/// O05.sym  Context::define is total: whatever the number of symbols already declared in the context (in any
/// number of open scopes), declaring one more either yields the slot `count` (as u16) or an error value - never a
/// panic; an error leaves the context as it was.
#[kani::proof]
#[kani::unwind(4)]
#[kani::stub(Context::total_len, total_len_contract)]
fn c05_define_total() {
    let outer: usize = kani::any();
    kani::assume(outer <= usize::MAX / 2);
    unsafe { OUTER_SYMBOLS = outer; }
    kani::cover!(outer == 65535);
    kani::cover!(outer == 65536);
    let mut ctx = ManuallyDrop::new(Context { scope: Scope::Local, max_size: 0, symbols: vec![Vec::with_capacity(1)] });
    let r = ManuallyDrop::new(ctx.define("a"));
    match &*r {
        Ok(s) => {
            assert!(outer <= u16::MAX as usize && s.index as usize == outer);
            assert!(ctx.symbols.len() == 1 && ctx.symbols[0].len() == 1 && ctx.max_size == 1);
        }
        Err(e) => {
            assert!(outer > u16::MAX as usize);
            assert!(matches!(e, Error::SyntaxError(_)));
            assert!(ctx.symbols.len() == 1 && ctx.symbols[0].len() == 0 && ctx.max_size == 0);
        }
    }
}
