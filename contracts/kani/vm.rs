//! Contracts (harness form) on the real functions of src/vm.rs. Child module `verif_kani` of `crate::vm`
//! in the per-run overlay (see contracts/kani/object.rs for the conventions).
use super::*;
use std::mem::ManuallyDrop;

pub fn fmt_stub(_args: std::fmt::Arguments<'_>) -> String {
    String::new()
}
fn new_gc() -> ManuallyDrop<GC> {
    ManuallyDrop::new(GC::new())
}
fn keep<T>(r: T) -> ManuallyDrop<T> {
    ManuallyDrop::new(r)
}
const MAX_INT: isize = isize::MAX >> 3;
const MIN_INT: isize = isize::MIN >> 3;
fn any_int() -> isize {
    let v: isize = kani::any();
    kani::assume(v >= MIN_INT && v <= MAX_INT);
    v
}
fn any_immediate() -> Object {
    let k: u8 = kani::any();
    match k % 4 {
        0 => Object::null(),
        1 => Object::bool(kani::any()),
        2 => Object::int(any_int()),
        _ => Object::function(kani::any(), kani::any()),
    }
}
/// the tagged word of an object (Object's field is private to object.rs)
fn word(o: Object) -> usize {
    unsafe { std::mem::transmute::<Object, usize>(o) }
}
fn from_word(w: usize) -> Object {
    unsafe { std::mem::transmute::<usize, Object>(w) }
}
fn any_word_with_tag(k: u8) -> Object {
    let w: usize = kani::any();
    kani::assume(w & 7 == k as usize);
    from_word(w)
}

// ------------------------------------------------------------------------------------------
// C13  arrays and strings
// ------------------------------------------------------------------------------------------

/// O13.cast  the two `as` casts that the Verus unit c13_arrays replaces by helpers (rule R3) have exactly the
/// helper's contract, for all values
#[kani::proof]
#[kani::unwind(2)]
fn c13_cast_contracts() {
    let x: isize = kani::any();
    kani::cover!(x < 0);
    let r = x as usize;
    if x >= 0 { assert!(r as u128 == x as u128); } else { assert!(r as i128 == x as i128 + (1i128 << 64)); }
    let n: usize = kani::any();
    kani::assume(n <= isize::MAX as usize);
    assert!((n as isize) as usize == n && (n as isize) >= 0);
}

// callee contracts used by the dispatch harnesses (the callees themselves are verified by the Verus unit
// c13_arrays for every length, and by the concrete string harnesses below)
static mut CALLED: u8 = 0;
fn get_array_contract(_obj: Object, _index: isize) -> Result<Object, Error> { unsafe { CALLED = 1; } Ok(Object::null()) }
fn get_string_contract(_obj: Object, _index: isize, _gc: &mut GC) -> Result<Object, Error> { unsafe { CALLED = 2; } Ok(Object::null()) }
fn set_array_contract(_a: &mut Vec<Object>, _index: isize, _v: Object) -> Result<(), Error> { unsafe { CALLED = 3; } Ok(()) }
fn set_string_contract(_s: &mut String, _index: isize, _v: Object) -> Result<(), Error> { unsafe { CALLED = 4; } Ok(()) }
/// PROVED-BY: O03.1 (registration with the collector; irrelevant to the contracts here)
fn trace_contract(_gc: &mut GC, _o: Object) {}
static mut DUMMY_VEC: Vec<Object> = Vec::new();
static mut DUMMY_STRING: String = String::new();
#[allow(static_mut_refs)]
fn as_vec_mut_contract(_o: &mut Object) -> &mut Vec<Object> { unsafe { &mut DUMMY_VEC } }
#[allow(static_mut_refs)]
fn as_string_mut_contract(_o: &mut Object) -> &mut String { unsafe { &mut DUMMY_STRING } }

/// O13.3a  index_get dispatch, ALL words: a non-integer index is a TypeError (whatever the target); an integer
/// index into anything but an array or a string is a TypeError; arrays go to index_get_array and strings to
/// index_get_string with the integer value of the index - and nothing else is touched.
#[kani::proof]
#[kani::unwind(2)]
#[kani::stub(std::fmt::format, fmt_stub)]
#[kani::stub(index_get_array, get_array_contract)]
#[kani::stub(index_get_string, get_string_contract)]
fn c13_index_get_dispatch() {
    let (kl, ki): (u8, u8) = (kani::any(), kani::any());
    kani::assume(kl < 7 && ki < 7);
    kani::cover!(kl == 6 && ki == 1);
    kani::cover!(kl == 5 && ki == 1);
    kani::cover!(ki == 4);
    let left = any_word_with_tag(kl);
    let index = any_word_with_tag(ki);
    let mut gc = new_gc();
    unsafe { CALLED = 0; }
    let r = keep(index_get(left, index, &mut gc));
    let called = unsafe { CALLED };
    if ki != 1 {
        assert!(matches!(&*r, Err(Error::TypeError(_))) && called == 0);
    } else if kl == 6 {
        assert!(r.is_ok() && called == 1);
    } else if kl == 5 {
        assert!(r.is_ok() && called == 2);
    } else {
        assert!(matches!(&*r, Err(Error::TypeError(_))) && called == 0);
    }
}

/// O13.3b  index_set dispatch, ALL words: same type discipline; on success the assigned value is the result.
#[kani::proof]
#[kani::unwind(2)]
#[kani::stub(std::fmt::format, fmt_stub)]
#[kani::stub(index_set_array, set_array_contract)]
#[kani::stub(index_set_string, set_string_contract)]
#[kani::stub(Object::as_vec_mut, as_vec_mut_contract)]
#[kani::stub(Object::as_string_mut, as_string_mut_contract)]
fn c13_index_set_dispatch() {
    let (kl, ki, kv): (u8, u8, u8) = (kani::any(), kani::any(), kani::any());
    kani::assume(kl < 7 && ki < 7 && kv < 7);
    kani::cover!(kl == 6 && ki == 1);
    kani::cover!(kl == 5 && ki == 1);
    let left = any_word_with_tag(kl);
    let index = any_word_with_tag(ki);
    let value = any_word_with_tag(kv);
    unsafe { CALLED = 0; }
    let r = keep(index_set(left, index, value));
    let called = unsafe { CALLED };
    if ki != 1 {
        assert!(matches!(&*r, Err(Error::TypeError(_))) && called == 0);
    } else if kl == 6 {
        assert!(matches!(&*r, Ok(v) if word(*v) == word(value)) && called == 3);
    } else if kl == 5 {
        assert!(matches!(&*r, Ok(v) if word(*v) == word(value)) && called == 4);
    } else {
        assert!(matches!(&*r, Err(Error::TypeError(_))) && called == 0);
    }
}

/// O13.3c [bounded: arrays of length 2 and a nesting array of length 1; every index in isize, every immediate
/// value] aliasing: an array is shared by reference. A write through one copy of the word - or through the
/// copy held inside another array - is read back through every other copy; an out-of-range index is an
/// IndexError that leaves both elements unchanged.
#[kani::proof]
#[kani::unwind(4)]
#[kani::stub(std::fmt::format, fmt_stub)]
#[kani::stub(GC::trace, trace_contract)]
#[kani::stub(index_get_string, get_string_contract)]
#[kani::stub(index_set_string, set_string_contract)]
fn c13_array_alias() {
    let mut gc = new_gc();
    let (e0, e1, v) = (any_immediate(), any_immediate(), any_immediate());
    let a = Object::array(vec![e0, e1], &mut gc);
    let alias = a;
    let outer = Object::array(vec![a], &mut gc);
    let i = any_int();
    kani::cover!(i == -2);
    kani::cover!(i == 1);
    kani::cover!(i == 2);
    let through_nested: bool = kani::any();
    let target = if through_nested {
        match &*keep(index_get(outer, Object::int(0), &mut gc)) { Ok(o) => *o, Err(_) => { assert!(false); a } }
    } else { a };
    let r = keep(index_set(target, Object::int(i), v));
    let n = if i < 0 { i + 2 } else { i };
    if n >= 0 && n < 2 {
        assert!(matches!(&*r, Ok(x) if word(*x) == word(v)));
        let back = keep(index_get(alias, Object::int(n), &mut gc));
        assert!(matches!(&*back, Ok(x) if word(*x) == word(v)));
        let other = keep(index_get(alias, Object::int(1 - n), &mut gc));
        assert!(matches!(&*other, Ok(x) if word(*x) == word(if n == 0 { e1 } else { e0 })));
        // negative index names the same element
        let neg = keep(index_get(alias, Object::int(n - 2), &mut gc));
        assert!(matches!(&*neg, Ok(x) if word(*x) == word(v)));
    } else {
        assert!(matches!(&*r, Err(Error::IndexError(_))));
        assert!(word(alias.as_vec()[0]) == word(e0) && word(alias.as_vec()[1]) == word(e1));
    }
    assert!(alias.as_vec().len() == 2);
}

// O13.4 (strings indexed / measured / modified by character) is NOT decided: `str::chars().count()`, `.nth()`,
// `char_indices()` and `String::replace_range` do not finish in CBMC even on fully concrete two-character
// texts (> 200 s each, measured), and Verus has no model of these iterator adapters. See DESIGN.md 3.3.

// ------------------------------------------------------------------------------------------
// C02 / C12  the unchecked helpers of the machine (assumed contracts of contracts/verus/prelude_vm.rs)
// ------------------------------------------------------------------------------------------
fn vm_with(code: Vec<u8>, stack: Vec<Object>, ip: usize, bp: u16) -> VM {
    VM { stack, globals: Vec::new(), frames: vec![Frame::new(0, 0)], instructions: code, ip, bp, gc: GC::new() }
}

/// O02.h1  read_u8: requires ip < code.len()  ensures value == code[ip], ip' == ip+1, nothing else changes
#[kani::proof]
#[kani::unwind(6)]
fn c02_read_u8() {
    let code: [u8; 4] = kani::any();
    let ip: usize = kani::any();
    kani::assume(ip < 4);
    kani::cover!(ip == 3);
    let mut vm = ManuallyDrop::new(vm_with(code.to_vec(), vec![Object::null()], ip, 0));
    let v = vm.read_u8();
    assert!(v == code[ip]);
    assert!(vm.ip == ip + 1 && vm.bp == 0 && vm.stack.len() == 1 && vm.frames.len() == 1 && vm.instructions.len() == 4);
    assert!(vm.instructions[0] == code[0] && vm.instructions[3] == code[3]);
}

/// O02.h2  read_u16: requires ip+2 <= code.len()  ensures value == code[ip] + 256*code[ip+1] (little endian,
/// the inverse of Compiler::emit_u16, O02.emit), ip' == ip+2
#[kani::proof]
#[kani::unwind(6)]
fn c02_read_u16() {
    let code: [u8; 4] = kani::any();
    let ip: usize = kani::any();
    kani::assume(ip <= 2);
    kani::cover!(ip == 2);
    let mut vm = ManuallyDrop::new(vm_with(code.to_vec(), vec![], ip, 0));
    let v = vm.read_u16();
    assert!(v as u32 == code[ip] as u32 + 256 * code[ip + 1] as u32);
    assert!(vm.ip == ip + 2 && vm.bp == 0 && vm.stack.len() == 0 && vm.frames.len() == 1 && vm.instructions.len() == 4);
}

/// O02.h3  pop: requires a non-empty stack  ensures the top element is returned and removed, the rest untouched
#[kani::proof]
#[kani::unwind(6)]
fn c02_pop() {
    let (a, b, c) = (any_immediate(), any_immediate(), any_immediate());
    let n: usize = kani::any();
    kani::assume(n >= 1 && n <= 3);
    kani::cover!(n == 1);
    kani::cover!(n == 3);
    let mut st = vec![a, b, c];
    st.truncate(n);
    let mut vm = ManuallyDrop::new(vm_with(vec![0], st, 0, 0));
    let top = vm.pop();
    assert!(word(top) == word([a, b, c][n - 1]));
    assert!(vm.stack.len() == n - 1);
    if n >= 2 { assert!(word(vm.stack[0]) == word(a)); }
    if n == 3 { assert!(word(vm.stack[1]) == word(b)); }
    assert!(vm.ip == 0 && vm.frames.len() == 1);
}

/// O02.h4  next: requires ip < code.len() and a valid opcode byte (<= 44)  ensures the opcode with that
/// discriminant, ip' == ip+1
#[kani::proof]
#[kani::unwind(6)]
fn c02_next() {
    let b: u8 = kani::any();
    kani::assume(b <= 44);
    kani::cover!(b == 44);
    let mut vm = ManuallyDrop::new(vm_with(vec![b, 0], vec![], 0, 0));
    let op = vm.next();
    assert!(op as u8 == b);
    assert!(vm.ip == 1);
}

/// O02.cast  the `as` casts replaced by helpers in the VM units (R3) have the helpers' contracts
#[kani::proof]
#[kani::unwind(2)]
fn c02_cast_contracts() {
    let x: usize = kani::any();
    if x <= 0xFFFF { assert!((x as u16) as usize == x); }
    let y: u16 = kani::any();
    assert!((y as usize) as u16 == y && (y as usize) <= 0xFFFF);
    let z: u8 = kani::any();
    assert!((z as usize) as u8 == z);
    kani::cover!(x == 0xFFFF);
}

/// O13.1k [bounded: arrays of length 0..=3; EVERY index in the integer range] the same contract as the Verus
/// unit c13_arrays (O13.1), checked on the real functions whatever their syntactic form: element `norm(i)` is
/// read / replaced when 0 <= norm(i) < len, IndexError otherwise, and no other element changes.
macro_rules! array_bounded {
    ($name:ident, $n:expr) => {
        #[kani::proof]
        #[kani::unwind(8)]
        #[kani::stub(std::fmt::format, fmt_stub)]
        #[kani::stub(GC::trace, trace_contract)]
        fn $name() { array_get_set_contract($n); }
    };
}
array_bounded!(c13_array_bounded_0, 0);
array_bounded!(c13_array_bounded_1, 1);
array_bounded!(c13_array_bounded_2, 2);
array_bounded!(c13_array_bounded_3, 3);
// thorough tier
array_bounded!(c13_array_bounded_4, 4);
array_bounded!(c13_array_bounded_5, 5);
fn array_get_set_contract(n: usize) {
    let mut gc = new_gc();
    let e = [any_immediate(), any_immediate(), any_immediate(), any_immediate(), any_immediate()];
    let v = any_immediate();
    let mut elems = Vec::with_capacity(6);
    if n >= 1 { elems.push(e[0]); }
    if n >= 2 { elems.push(e[1]); }
    if n >= 3 { elems.push(e[2]); }
    if n >= 4 { elems.push(e[3]); }
    if n >= 5 { elems.push(e[4]); }
    let mut a = Object::array(elems, &mut gc);
    let i = any_int();
    kani::cover!(i == -(n as isize));
    kani::cover!(i == -(n as isize) - 1);
    let norm = if i < 0 { i + n as isize } else { i };
    let inside = norm >= 0 && norm < n as isize;
    // read
    let r = keep(index_get_array(a, i));
    if inside { assert!(matches!(&*r, Ok(x) if word(*x) == word(e[norm as usize]))); } else { assert!(matches!(&*r, Err(Error::IndexError(_)))); }
    // write
    let w = keep(index_set_array(a.as_vec_mut(), i, v));
    if inside { assert!(w.is_ok()); } else { assert!(matches!(&*w, Err(Error::IndexError(_)))); }
    assert!(a.as_vec().len() == n);
    let mut k = 0;
    while k < n {
        let want = if inside && k == norm as usize { v } else { e[k] };
        assert!(word(a.as_vec()[k]) == word(want));
        k += 1;
    }
}

// ------------------------------------------------------------------------------------------
// C12  bounded twins of the Call / Return arms (the real arm text, compiled as methods by the driver:
// registry.TWINS). Same contracts as the Verus unit c12_calls, on small stacks, whatever the arm's syntactic form.
// ------------------------------------------------------------------------------------------

/// O12.2k [bounded: 1 argument, callee with 1..=3 slots, two caller slots below] Call: arguments stay in place,
/// remaining slots are NULL, callee word gone, one frame pushed with the return address, caller slots untouched
#[kani::proof]
#[kani::unwind(6)]
#[kani::stub(std::fmt::format, fmt_stub)]
fn c12_call_twin() {
    let (c0, c1, arg) = (any_immediate(), any_immediate(), any_immediate());
    let ip: u32 = kani::any();
    let locals: u16 = kani::any();
    kani::assume(locals <= 3);
    kani::cover!(locals == 3);
    kani::cover!(locals == 0);
    let f = Object::function(ip, locals);
    let mut st = Vec::with_capacity(8);
    st.push(c0); st.push(c1); st.push(arg); st.push(f);
    // junk above the live part of the stack must never become visible as a local
    let mut vm = ManuallyDrop::new(VM { stack: st, globals: Vec::new(), frames: vec![Frame::new(7, 0)], instructions: vec![OpCode::Call as u8, 1, 0], ip: 1, bp: 0, gc: GC::new() });
    vm.frames.reserve(4);
    let r = keep(vm.verif_arm_call());
    if locals < 1 {
        assert!(matches!(&*r, Err(Error::ArgumentError(_))));
    } else {
        assert!(r.is_ok());
        assert!(vm.bp == 2 && vm.ip == ip as usize);
        assert!(vm.stack.len() == 2 + locals as usize);
        assert!(word(vm.stack[0]) == word(c0) && word(vm.stack[1]) == word(c1) && word(vm.stack[2]) == word(arg));
        let mut i = 3;
        while i < vm.stack.len() { assert!(word(vm.stack[i]) == word(Object::null())); i += 1; }
        assert!(vm.frames.len() == 2 && vm.frames[0].ip == 2 && vm.frames[0].base_pointer == 0);
        assert!(vm.frames[1].ip == ip as usize && vm.frames[1].base_pointer == 2);
    }
}

/// O12.3k [bounded: caller stack of 2 slots, callee activation of 0 / 1 / 2 slots] ReturnValue / Return: the
/// caller's stack is exactly as before plus the result (null for Return); frame popped; ip / bp restored
macro_rules! return_twin {
    ($name:ident, $n:expr) => {
        #[kani::proof]
        #[kani::unwind(6)]
        #[kani::stub(std::fmt::format, fmt_stub)]
        fn $name() { return_twin_contract($n); }
    };
}
return_twin!(c12_return_twin_0, 0);
return_twin!(c12_return_twin_1, 1);
return_twin!(c12_return_twin_2, 2);
// thorough tier
return_twin!(c12_return_twin_3, 3);
return_twin!(c12_return_twin_4, 4);
fn return_twin_contract(n_locals: usize) {
    let (c0, c1, l0, l1, res, last) = (any_immediate(), any_immediate(), any_immediate(), any_immediate(), any_immediate(), any_immediate());
    let (l2, l3) = (any_immediate(), any_immediate());
    let with_value: bool = kani::any();
    kani::cover!(with_value);
    kani::cover!(!with_value);
    let mut st = Vec::with_capacity(8);
    st.push(c0); st.push(c1);
    if n_locals >= 1 { st.push(l0); }
    if n_locals >= 2 { st.push(l1); }
    if n_locals >= 3 { st.push(l2); }
    if n_locals >= 4 { st.push(l3); }
    if with_value { st.push(res); }
    let (rip, rbp): (usize, u16) = (kani::any(), kani::any());
    kani::assume(rbp <= 2);
    let mut vm = ManuallyDrop::new(VM { stack: st, globals: Vec::new(), frames: vec![Frame::new(rip, rbp), Frame::new(99, 2)], instructions: vec![0], ip: 99, bp: 2, gc: GC::new() });
    let constants = ManuallyDrop::new(Vec::new());
    let mut gc = new_gc();
    let r = keep(if with_value { vm.verif_arm_returnvalue(&constants, &mut gc, last) } else { vm.verif_arm_return(&constants, &mut gc, last) });
    assert!(r.is_ok());
    assert!(vm.stack.len() == 3);
    assert!(word(vm.stack[0]) == word(c0) && word(vm.stack[1]) == word(c1));
    assert!(word(vm.stack[2]) == word(if with_value { res } else { Object::null() }));
    assert!(vm.frames.len() == 1 && vm.ip == rip && vm.bp == rbp);
}

// ------------------------------------------------------------------------------------------
// C02 / C10 / C11  bounded twins of the remaining dispatch arms (real arm text compiled as methods, registry.TWINS).
// Executable form of the Verus contracts of unit c02_arms on small machine states. Callees of the arms (operators,
// builtins, index functions, constructors) are replaced by recorders: a twin checks WHICH callee gets WHICH
// operands in WHICH order, what happens to the stack and to ip - not what the callee computes (C06/C13/C14).
// ------------------------------------------------------------------------------------------
static mut OP_CALLED: u8 = 255;
static mut OP_LEFT: usize = 0;
static mut OP_RIGHT: usize = 0;
const MARKER: isize = 31337;
macro_rules! op_recorder {
    ($name:ident, $id:expr) => {
        fn $name(l: Object, r: Object, _gc: &mut GC) -> Result<Object, Error> {
            unsafe { OP_CALLED = $id; OP_LEFT = word(l); OP_RIGHT = word(r); }
            Ok(Object::int(MARKER))
        }
    };
}
op_recorder!(rec_add, 0); op_recorder!(rec_sub, 1); op_recorder!(rec_mul, 2); op_recorder!(rec_div, 3); op_recorder!(rec_rem, 4);
op_recorder!(rec_lt, 5); op_recorder!(rec_lte, 6); op_recorder!(rec_gt, 7); op_recorder!(rec_gte, 8); op_recorder!(rec_eq, 9);
op_recorder!(rec_neq, 10); op_recorder!(rec_and, 11); op_recorder!(rec_or, 12);

fn small_vm(stack: Vec<Object>, code: Vec<u8>, bp: u16) -> ManuallyDrop<VM> {
    ManuallyDrop::new(VM { stack, globals: Vec::with_capacity(4), frames: vec![Frame::new(0, 0)], instructions: code, ip: 0, bp, gc: GC::new() })
}
fn stack3() -> (Vec<Object>, [Object; 3]) {
    let e = [any_immediate(), any_immediate(), any_immediate()];
    let mut st = Vec::with_capacity(8);
    st.push(e[0]); st.push(e[1]); st.push(e[2]);
    (st, e)
}

macro_rules! binop_twin {
    ($name:ident, $arm:ident, $id:expr, $method:ident, $rec:ident) => {
        /// generic operator arm: LEFT is the slot below the top, RIGHT the top; both are replaced by the one result;
        /// the slot below is untouched; ip does not move
        #[kani::proof]
        #[kani::unwind(5)]
        #[kani::stub(std::fmt::format, fmt_stub)]
        #[kani::stub(Object::$method, $rec)]   // only the expected operator is a recorder: any other callee leaves OP_CALLED at 255
        fn $name() {
            let (st, e) = stack3();
            let mut vm = small_vm(st, vec![0], 0);
            let mut gc = new_gc();
            unsafe { OP_CALLED = 255; }
            let r = keep(vm.$arm(&mut gc));
            assert!(r.is_ok());
            assert!(unsafe { OP_CALLED } == $id && unsafe { OP_LEFT } == word(e[1]) && unsafe { OP_RIGHT } == word(e[2]));
            assert!(vm.stack.len() == 2 && word(vm.stack[0]) == word(e[0]) && word(vm.stack[1]) == word(Object::int(MARKER)));
            assert!(vm.ip == 0 && vm.bp == 0 && vm.frames.len() == 1);
        }
    };
}
binop_twin!(c02_twin_add, verif_arm_add, 0, add, rec_add); binop_twin!(c02_twin_subtract, verif_arm_subtract, 1, sub, rec_sub); binop_twin!(c02_twin_multiply, verif_arm_multiply, 2, mul, rec_mul);
binop_twin!(c02_twin_divide, verif_arm_divide, 3, div, rec_div); binop_twin!(c02_twin_modulo, verif_arm_modulo, 4, rem, rec_rem); binop_twin!(c02_twin_lt, verif_arm_lt, 5, lt, rec_lt);
binop_twin!(c02_twin_lte, verif_arm_lte, 6, lte, rec_lte); binop_twin!(c02_twin_gt, verif_arm_gt, 7, gt, rec_gt); binop_twin!(c02_twin_gte, verif_arm_gte, 8, gte, rec_gte);
binop_twin!(c02_twin_eq, verif_arm_eq, 9, eq, rec_eq); binop_twin!(c02_twin_neq, verif_arm_neq, 10, neq, rec_neq); binop_twin!(c02_twin_and, verif_arm_and, 11, and, rec_and);
binop_twin!(c02_twin_or, verif_arm_or, 12, or, rec_or);

macro_rules! fused_twin {
    ($name:ident, $arm:ident, $id:expr, $method:ident, $rec:ident) => {
        /// fused arm: LEFT is the local slot named by the first 16-bit operand (relative to bp), RIGHT the constant
        /// named by the second; the result is pushed; nothing is popped; ip advances by 4
        #[kani::proof]
        #[kani::unwind(5)]
        #[kani::stub(std::fmt::format, fmt_stub)]
        #[kani::stub(Object::$method, $rec)]   // only the expected operator is a recorder: any other callee leaves OP_CALLED at 255
        fn $name() {
            let (st, e) = stack3();
            let li: u8 = kani::any();
            let ci: u8 = kani::any();
            kani::assume(li <= 1 && ci <= 1);
            kani::cover!(li == 1 && ci == 1);
            let k = [any_immediate(), any_immediate()];
            let constants = ManuallyDrop::new(vec![k[0], k[1]]);
            let mut vm = small_vm(st, vec![li, 0, ci, 0, 99], 1);
            let mut gc = new_gc();
            unsafe { OP_CALLED = 255; }
            let r = keep(vm.$arm(&constants, &mut gc));
            assert!(r.is_ok());
            assert!(unsafe { OP_CALLED } == $id && unsafe { OP_LEFT } == word(e[1 + li as usize]) && unsafe { OP_RIGHT } == word(k[ci as usize]));
            assert!(vm.stack.len() == 4 && word(vm.stack[0]) == word(e[0]) && word(vm.stack[1]) == word(e[1]) && word(vm.stack[2]) == word(e[2]));
            assert!(word(vm.stack[3]) == word(Object::int(MARKER)));
            assert!(vm.ip == 4 && vm.bp == 1);
        }
    };
}
fused_twin!(c10_twin_addlocalconst, verif_arm_addlocalconst, 0, add, rec_add); fused_twin!(c10_twin_subtractlocalconst, verif_arm_subtractlocalconst, 1, sub, rec_sub);
fused_twin!(c10_twin_multiplylocalconst, verif_arm_multiplylocalconst, 2, mul, rec_mul); fused_twin!(c10_twin_dividelocalconst, verif_arm_dividelocalconst, 3, div, rec_div);
fused_twin!(c10_twin_modulolocalconst, verif_arm_modulolocalconst, 4, rem, rec_rem); fused_twin!(c10_twin_ltlocalconst, verif_arm_ltlocalconst, 5, lt, rec_lt);
fused_twin!(c10_twin_ltelocalconst, verif_arm_ltelocalconst, 6, lte, rec_lte); fused_twin!(c10_twin_gtlocalconst, verif_arm_gtlocalconst, 7, gt, rec_gt);
fused_twin!(c10_twin_gtelocalconst, verif_arm_gtelocalconst, 8, gte, rec_gte); fused_twin!(c10_twin_eqlocalconst, verif_arm_eqlocalconst, 9, eq, rec_eq);
fused_twin!(c10_twin_neqlocalconst, verif_arm_neqlocalconst, 10, neq, rec_neq);

/// Const / GetLocal / SetLocal / GetGlobal / SetGlobal: loads and stores address exactly the slot named by the
/// 16-bit operand (little endian); ip advances by 2; every other slot is untouched
fn loads_stores_contract(which: u8) {
    let (st, e) = stack3();
    let idx: u8 = kani::any();
    // SetLocal pops first: the compiler never addresses the popped slot itself (arm precondition bp + idx < len - 1)
    kani::assume(idx <= if which == 2 { 0 } else { 1 });
    kani::cover!(idx == 0);
    let k = [any_immediate(), any_immediate()];
    let g = [any_immediate(), any_immediate()];
    let constants = ManuallyDrop::new(vec![k[0], k[1]]);
    let mut vm = small_vm(st, vec![idx, 0, 99], 1);
    vm.globals.push(g[0]);
    if which != 4 { vm.globals.push(g[1]); }
    let r = keep(match which {
        0 => vm.verif_arm_const(&constants),
        1 => vm.verif_arm_getlocal(),
        2 => vm.verif_arm_setlocal(),
        3 => vm.verif_arm_getglobal(),
        _ => vm.verif_arm_setglobal(),
    });
    assert!(r.is_ok() && vm.ip == 2 && vm.bp == 1);
    assert!(word(vm.stack[0]) == word(e[0]));
    match which {
        0 => assert!(vm.stack.len() == 4 && word(vm.stack[3]) == word(k[idx as usize]) && word(vm.stack[2]) == word(e[2])),
        1 => assert!(vm.stack.len() == 4 && word(vm.stack[3]) == word(e[1 + idx as usize]) && word(vm.stack[2]) == word(e[2])),
        2 => assert!(vm.stack.len() == 2 && word(vm.stack[1]) == word(e[2])),
        3 => assert!(vm.stack.len() == 4 && word(vm.stack[3]) == word(g[idx as usize])),
        _ => {
            // globals had one entry: writing slot 1 extends the vector, slot 0 keeps its value unless it is the target
            assert!(vm.stack.len() == 2 && vm.globals.len() == if idx == 1 { 2 } else { 1 });
            assert!(word(vm.globals[idx as usize]) == word(e[2]));
            if idx == 1 { assert!(word(vm.globals[0]) == word(g[0])); }
        }
    }
}
macro_rules! ls_twin { ($name:ident, $w:expr) => {
    #[kani::proof]
    #[kani::unwind(6)]
    #[kani::stub(std::fmt::format, fmt_stub)]
    fn $name() { loads_stores_contract($w); }
}; }
ls_twin!(c02_twin_const, 0); ls_twin!(c02_twin_getlocal, 1); ls_twin!(c02_twin_setlocal, 2); ls_twin!(c02_twin_getglobal, 3); ls_twin!(c02_twin_setglobal, 4);

/// GetGlobal of a slot that has not been written yet: ReferenceError, never an out-of-bounds access
#[kani::proof]
#[kani::unwind(6)]
#[kani::stub(std::fmt::format, fmt_stub)]
fn c02_twin_getglobal_unset() {
    let (st, _e) = stack3();
    let n: usize = kani::any();
    kani::assume(n <= 2);
    let idx: u8 = kani::any();
    kani::assume(idx as usize >= n && idx <= 3);
    kani::cover!(idx as usize == n);
    let mut vm = small_vm(st, vec![idx, 0, 99], 0);
    if n >= 1 { vm.globals.push(Object::null()); }
    if n >= 2 { vm.globals.push(Object::null()); }
    let r = keep(vm.verif_arm_getglobal());
    assert!(matches!(&*r, Err(Error::ReferenceError(_))));
}

/// Jump / JumpIfFalse / Pop / Null / True / False / Not: control goes exactly where the operand says; a
/// non-boolean condition is a TypeError; Pop hands the popped value to the last-statement slot
#[kani::proof]
#[kani::unwind(6)]
#[kani::stub(std::fmt::format, fmt_stub)]
fn c11_twin_control() {
    let (st, e) = stack3();
    let (lo, hi): (u8, u8) = (kani::any(), kani::any());
    let target = lo as usize + 256 * hi as usize;
    let which: u8 = kani::any();
    kani::assume(which <= 6);
    kani::cover!(which == 1 && hi > 0);
    let mut vm = small_vm(st, vec![lo, hi, 99], 0);
    let mut last = Object::null();
    let r = keep(match which {
        0 => vm.verif_arm_jump(),
        1 => vm.verif_arm_jumpiffalse(),
        2 => vm.verif_arm_pop(&mut last),
        3 => vm.verif_arm_null(),
        4 => vm.verif_arm_true(),
        5 => vm.verif_arm_false(),
        _ => vm.verif_arm_not(),
    });
    assert!(word(vm.stack[0]) == word(e[0]) && word(vm.stack[1]) == word(e[1]));
    match which {
        0 => assert!(r.is_ok() && vm.ip == target && vm.stack.len() == 3),
        1 => {
            if e[2].tag() != Type::Bool { assert!(matches!(&*r, Err(Error::TypeError(_)))); }
            else { assert!(r.is_ok() && vm.stack.len() == 2 && vm.ip == if e[2].as_bool() { 2 } else { target }); }
        }
        2 => assert!(r.is_ok() && vm.stack.len() == 2 && word(last) == word(e[2]) && vm.ip == 0),
        3 => assert!(r.is_ok() && vm.stack.len() == 4 && word(vm.stack[3]) == word(Object::null())),
        4 => assert!(r.is_ok() && vm.stack.len() == 4 && word(vm.stack[3]) == word(Object::bool(true))),
        5 => assert!(r.is_ok() && vm.stack.len() == 4 && word(vm.stack[3]) == word(Object::bool(false))),
        _ => {
            if e[2].tag() != Type::Bool { assert!(matches!(&*r, Err(Error::TypeError(_)))); }
            else { assert!(r.is_ok() && vm.stack.len() == 3 && word(vm.stack[2]) == word(Object::bool(!e[2].as_bool()))); }
        }
    }
}

/// Negate on integers: the exact negation, an error for the one value whose negation leaves the 61-bit range;
/// non-numbers are a TypeError
#[kani::proof]
#[kani::unwind(6)]
#[kani::stub(std::fmt::format, fmt_stub)]
fn c06_twin_negate() {
    let v = any_int();
    let other = any_immediate();
    let use_int: bool = kani::any();
    kani::cover!(use_int && v == MIN_INT);
    let top = if use_int { Object::int(v) } else { other };
    let mut st = Vec::with_capacity(4);
    st.push(Object::int(5)); st.push(top);
    let mut vm = small_vm(st, vec![0], 0);
    let mut gc = new_gc();
    let r = keep(vm.verif_arm_negate(&mut gc));
    if top.tag() == Type::Int {
        let x = top.as_int();
        if x == MIN_INT { assert!(r.is_err()); }
        else { assert!(r.is_ok() && vm.stack.len() == 2 && vm.stack[1].tag() == Type::Int && vm.stack[1].as_int() == -x); }
    } else {
        assert!(matches!(&*r, Err(Error::TypeError(_))));
    }
    assert!(vm.stack[0].as_int() == 5);
}

static mut CALL_ARGS: [usize; 3] = [0; 3];
static mut CALL_ARGC: usize = 99;
static mut CALL_BUILTIN: u8 = 99;
fn builtin_rec(b: Builtin, args: &[Object], _gc: &mut GC) -> Result<Object, Error> {
    unsafe {
        CALL_BUILTIN = b as u8;
        CALL_ARGC = args.len();
        let mut i = 0;
        while i < args.len() && i < 3 { CALL_ARGS[i] = word(args[i]); i += 1; }
    }
    Ok(Object::int(MARKER))
}
/// CallBuiltin: pops exactly argc values and hands them to the builtin named by the byte IN CALL ORDER
fn callbuiltin_contract(argc: u8) {
    let (st, e) = stack3();
    let b: u8 = kani::any();
    kani::assume(b <= 6);
    kani::cover!(b == 6);
    let mut vm = small_vm(st, vec![b, argc, 99], 0);
    let mut gc = new_gc();
    unsafe { CALL_ARGC = 99; }
    let r = keep(vm.verif_arm_callbuiltin(&mut gc));
    assert!(r.is_ok() && vm.ip == 2);
    assert!(unsafe { CALL_BUILTIN } == b && unsafe { CALL_ARGC } == argc as usize);
    assert!(vm.stack.len() == 3 - argc as usize + 1);
    assert!(word(vm.stack[vm.stack.len() - 1]) == word(Object::int(MARKER)));
    let mut i = 0;
    while i < argc as usize { assert!(unsafe { CALL_ARGS[i] } == word(e[3 - argc as usize + i])); i += 1; }
    let mut j = 0;
    while j < 3 - argc as usize { assert!(word(vm.stack[j]) == word(e[j])); j += 1; }
}
macro_rules! cb_twin { ($name:ident, $n:expr) => {
    #[kani::proof]
    #[kani::unwind(6)]
    #[kani::stub(std::fmt::format, fmt_stub)]
    #[kani::stub(builtins::call, builtin_rec)]
    fn $name() { callbuiltin_contract($n); }
}; }
cb_twin!(c14_twin_callbuiltin_0, 0); cb_twin!(c14_twin_callbuiltin_1, 1); cb_twin!(c14_twin_callbuiltin_2, 2);

static mut IDX_ARGS: [usize; 3] = [0; 3];
fn index_get_rec(l: Object, i: Object, _gc: &mut GC) -> Result<Object, Error> { unsafe { IDX_ARGS = [word(l), word(i), 0]; } Ok(Object::int(MARKER)) }
fn index_set_rec(l: Object, i: Object, v: Object) -> Result<Object, Error> { unsafe { IDX_ARGS = [word(l), word(i), word(v)]; } Ok(Object::int(MARKER)) }
/// IndexGet / IndexSet: target below index (below value); operands replaced by the one result
#[kani::proof]
#[kani::unwind(6)]
#[kani::stub(std::fmt::format, fmt_stub)]
#[kani::stub(index_get, index_get_rec)]
#[kani::stub(index_set, index_set_rec)]
fn c13_twin_index_arms() {
    let (st, e) = stack3();
    let set: bool = kani::any();
    let mut vm = small_vm(st, vec![0], 0);
    let mut gc = new_gc();
    let r = keep(if set { vm.verif_arm_indexset() } else { vm.verif_arm_indexget(&mut gc) });
    assert!(r.is_ok());
    if set {
        assert!(unsafe { IDX_ARGS[0] } == word(e[0]) && unsafe { IDX_ARGS[1] } == word(e[1]) && unsafe { IDX_ARGS[2] } == word(e[2]) && vm.stack.len() == 1);
    } else {
        assert!(unsafe { IDX_ARGS[0] } == word(e[1]) && unsafe { IDX_ARGS[1] } == word(e[2]) && vm.stack.len() == 2 && word(vm.stack[0]) == word(e[0]));
    }
    assert!(word(vm.stack[vm.stack.len() - 1]) == word(Object::int(MARKER)));
}

/// Array: pops exactly `length` values and builds the array from them IN SOURCE ORDER
#[kani::proof]
#[kani::unwind(6)]
#[kani::stub(std::fmt::format, fmt_stub)]
#[kani::stub(GC::trace, trace_contract)]
fn c13_twin_array_arm() {
    let (st, e) = stack3();
    let mut vm = small_vm(st, vec![2, 0, 99], 0);
    let mut gc = new_gc();
    let r = keep(vm.verif_arm_array(&mut gc));
    assert!(r.is_ok() && vm.ip == 2 && vm.stack.len() == 2 && word(vm.stack[0]) == word(e[0]));
    let a = vm.stack[1];
    assert!(a.tag() == Type::Array && a.as_vec().len() == 2);
    assert!(word(a.as_vec()[0]) == word(e[1]) && word(a.as_vec()[1]) == word(e[2]));
}

static mut UNTRACED: usize = 0;
fn untrace_rec(_gc: &mut GC, o: Object) { unsafe { UNTRACED = word(o); } }
/// Halt: the last statement's value is untraced (the collector stops managing it) and handed out
#[kani::proof]
#[kani::unwind(6)]
#[kani::stub(std::fmt::format, fmt_stub)]
#[kani::stub(GC::untrace, untrace_rec)]
fn c03_twin_halt() {
    let (st, _e) = stack3();
    let last = any_immediate();
    let mut vm = small_vm(st, vec![0], 0);
    let mut gc = new_gc();
    unsafe { UNTRACED = 1; }
    let r = keep(vm.verif_arm_halt(&mut gc, last));
    assert!(matches!(&*r, Ok(o) if word(*o) == word(last)));
    assert!(unsafe { UNTRACED } == word(last));
    assert!(vm.stack.len() == 3);
}
