// ---- compiler_convert_assumed.rs: contracts of to_u16 / to_u8 as verified verbatim in unit c11_control ----
// PROVED-BY: unit c11_control (verbatim bodies of to_u16 / to_u8)
#[verifier::external_body]
fn to_u16(value: usize) -> (r: Result<u16, Error>)
    ensures value <= 0xFFFF ==> r == Ok::<u16, Error>(value as u16), value > 0xFFFF ==> r is Err
{ unimplemented!() }
#[verifier::external_body]
fn to_u8(value: usize) -> (r: Result<u8, Error>)
    ensures value <= 0xFF ==> r == Ok::<u8, Error>(value as u8), value > 0xFF ==> r is Err
{ unimplemented!() }

