// ---- compiler_convert_assumed.rs: contracts of to_u16 / to_u8, copied from unit c11_control which verifies their real bodies ----
//@ASSUMES unit=c11_control.rs fn=to_u16 full=1
//@ASSUMES unit=c11_control.rs fn=to_u8 full=1
