// ---- compiler_helpers_assumed.rs: contracts of small compiler helpers as VERIFIED verbatim in unit c11_control ----
impl LoopContext {
    #[verifier::external_body]
    fn new(start: usize) -> (c: Self) ensures c.start == start, c.break_instructions@.len() == 0 { unimplemented!() }
}
impl Compiler {
    // PROVED-BY: unit c11_control
    #[verifier::external_body]
    fn last_instruction_is(&self, op: OpCode) -> (b: bool) ensures b == (self.last_instruction == Some(op)) { unimplemented!() }
    // PROVED-BY: unit c11_control
    #[verifier::external_body]
    fn remove_last_instruction(&mut self)
        requires old(self).last_instruction == Some(OpCode::Pop), gen_inv(*old(self))
        ensures final(self).instructions@ == old(self).instructions@.drop_last(), final(self).last_instruction is None,
                same_but_code(*old(self), *final(self)), gen_inv(*final(self)),
    { unimplemented!() }
}
