// ---- compiler_helpers_assumed.rs: contracts of small compiler helpers, copied from unit c11_control which verifies their real bodies ----
impl LoopContext {
//@ASSUMES unit=c11_control.rs after="impl LoopContext {" fn=new full=1
}
impl Compiler {
//@ASSUMES unit=c11_control.rs fn=last_instruction_is full=1
//@ASSUMES unit=c11_control.rs fn=remove_last_instruction full=1
}
