// ---- genpost_lemmas.rs: how the generator contract gen_post composes (proved here, used as hints by the arm units) ----

/// two generator steps in sequence
pub proof fn lemma_gen_post_trans(a: Compiler, b: Compiler, c: Compiler, ok1: bool, ok2: bool)
    requires gen_post(a, b, ok1), gen_post(b, c, ok2),
             // the second step either emitted something, or left the remembered last instruction alone, or at least
             // does not end in a Pop that the peephole could still remove
             c.instructions@.len() > b.instructions@.len() || c.last_instruction == b.last_instruction || c.last_instruction != Some(OpCode::Pop),
    ensures gen_post(a, c, ok1 && ok2)
{
    let n = a.loop_contexts@.len() as int;
    assert(is_prefix(a.instructions@, c.instructions@)) by {
        assert forall|k: int| 0 <= k < a.instructions@.len() implies #[trigger] c.instructions@[k] == a.instructions@[k] by {
            assert(b.instructions@[k] == a.instructions@[k]);
        }
    }
    assert forall|i: int| 0 <= i < n implies #[trigger] c.loop_contexts@[i].start == a.loop_contexts@[i].start by {
        assert(b.loop_contexts@[i].start == a.loop_contexts@[i].start);
    }
    assert forall|i: int| 0 <= i < n - 1 implies #[trigger] breaks(c, i) == breaks(a, i) by {
        assert(breaks(b, i) == breaks(a, i));
    }
    assert forall|i: int| 0 <= i < a.constants@.len() implies c.constants@[i] == a.constants@[i] by {
        assert(b.constants@[i] == a.constants@[i]);
    }
    if n > 0 {
        let b0 = breaks(a, n - 1); let b1 = breaks(b, n - 1); let b2 = breaks(c, n - 1);
        assert(b2.subrange(0, b0.len() as int) =~= b0) by {
            assert forall|j: int| 0 <= j < b0.len() implies b2[j] == b0[j] by {
                assert(b2.subrange(0, b1.len() as int)[j] == b1[j]);
                assert(b1.subrange(0, b0.len() as int)[j] == b0[j]);
            }
        }
        assert forall|j: int| b0.len() <= j < b2.len() implies a.instructions@.len() <= #[trigger] b2[j] && break_ok(c, b2[j] as int) by {
            if j < b1.len() {
                assert(b2.subrange(0, b1.len() as int)[j] == b1[j]);
                assert(break_ok(b, b1[j] as int));
                assert(c.instructions@[b1[j] as int] == b.instructions@[b1[j] as int]);
            } else {
                assert(break_ok(c, b2[j] as int));
            }
        }
        assert forall|j: int, k: int| b0.len() <= j < k < b2.len() implies #[trigger] b2[j] + 3 <= #[trigger] b2[k] by {
            if k < b1.len() {
                assert(b2.subrange(0, b1.len() as int)[j] == b1[j]);
                assert(b2.subrange(0, b1.len() as int)[k] == b1[k]);
            } else if j < b1.len() {
                assert(b2.subrange(0, b1.len() as int)[j] == b1[j]);
                assert(break_ok(b, b1[j] as int));
            }
        }
    }
}

/// a step that only appends bytes (emit_opcode / emit_u8 / emit_u16 sequences) and keeps the invariant
pub proof fn lemma_gen_post_append(b: Compiler, c: Compiler, extra: Seq<u8>)
    requires c.instructions@ == b.instructions@ + extra, extra.len() > 0, gen_inv(c),
             c.loop_contexts == b.loop_contexts, c.loop_h@ == b.loop_h@, c.locals_bound@ >= b.locals_bound@, sym_same(c.symbols, b.symbols),
             b.constants@.len() <= c.constants@.len(), forall|i: int| 0 <= i < b.constants@.len() ==> c.constants@[i] == b.constants@[i],
    ensures gen_post(b, c, true)
{
    let n = b.loop_contexts@.len() as int;
    if n > 0 { assert(breaks(c, n - 1).subrange(0, breaks(b, n - 1).len() as int) =~= breaks(b, n - 1)); }
}

/// nothing emitted (an early error return, a failed attempt that only touched the constant pool)
pub proof fn lemma_gen_post_same(b: Compiler, c: Compiler)
    requires c.instructions@ == b.instructions@, c.last_instruction == b.last_instruction, gen_inv(b), sym_wf(c.symbols), sym_max_size(c.symbols) >= sym_max_size(b.symbols), (c.last_instruction == Some(OpCode::ReturnValue) ==> c.height@ is Dead) && hcovers(c.height@, 0),
             c.loop_contexts == b.loop_contexts, c.loop_h@ == b.loop_h@, c.locals_bound@ == b.locals_bound@,
             b.constants@.len() <= c.constants@.len(), forall|i: int| 0 <= i < b.constants@.len() ==> c.constants@[i] == b.constants@[i],
    ensures gen_post(b, c, false)
{
    let n = b.loop_contexts@.len() as int;
    if n > 0 { assert(breaks(c, n - 1).subrange(0, breaks(b, n - 1).len() as int) =~= breaks(b, n - 1)); }
}

/// nothing happened yet
pub proof fn lemma_gen_post_refl(a: Compiler)
    requires gen_inv(a)
    ensures gen_post(a, a, false)
{
    let n = a.loop_contexts@.len() as int;
    if n > 0 { assert(breaks(a, n - 1).subrange(0, breaks(a, n - 1).len() as int) =~= breaks(a, n - 1)); }
}

/// the `ok` flag of gen_post only guards "at least one byte was emitted" and "scope / context depth restored"
pub proof fn lemma_gen_post_upgrade(a: Compiler, c: Compiler)
    requires gen_post(a, c, false), c.instructions@.len() > a.instructions@.len(),
             sym_depth(c.symbols) == sym_depth(a.symbols), sym_contexts(c.symbols) == sym_contexts(a.symbols), sym_outer(c.symbols) == sym_outer(a.symbols), sym_outer_sizes(c.symbols) == sym_outer_sizes(a.symbols),
    ensures gen_post(a, c, true)
{}

/// the new pending stops of the innermost loop (those recorded between states a and b)
pub open spec fn new_breaks_clear_of(a: Compiler, b: Compiler, idx: int) -> bool {
    let n = a.loop_contexts@.len() as int;
    n > 0 ==> forall|j: int| breaks(a, n - 1).len() <= j < breaks(b, n - 1).len() ==> (#[trigger] breaks(b, n - 1)[j]) + 3 <= idx || idx + 3 <= breaks(b, n - 1)[j]
}

/// patching the 16-bit operand of a jump that this generator emitted itself (position idx >= start of the generator)
/// and that does not overlap any pending stop recorded meanwhile
pub proof fn lemma_gen_post_patch(a: Compiler, b: Compiler, c: Compiler, idx: int, lo: u8, hi: u8, ok: bool)
    requires gen_post(a, b, ok), a.instructions@.len() <= idx, idx + 2 < b.instructions@.len(),
             c.instructions@ == b.instructions@.update(idx + 1, lo).update(idx + 2, hi),
             c.last_instruction == b.last_instruction, c.loop_contexts == b.loop_contexts, c.loop_h@ == b.loop_h@, c.locals_bound@ == b.locals_bound@, sym_same(c.symbols, b.symbols), c.constants == b.constants,
             new_breaks_clear_of(a, b, idx), (c.last_instruction == Some(OpCode::ReturnValue) ==> c.height@ is Dead) && hcovers(c.height@, 0),
             (b.last_instruction is Some && no_operand_tail(b.last_instruction->Some_0)) ==> idx + 2 < b.instructions@.len() - 1,
    ensures gen_post(a, c, ok)
{
    let n = a.loop_contexts@.len() as int;
    if n > 0 {
        let b0 = breaks(a, n - 1); let b1 = breaks(b, n - 1);
        assert(breaks(c, n - 1) == b1);
        assert forall|j: int| b0.len() <= j < b1.len() implies a.instructions@.len() <= #[trigger] b1[j] && break_ok(c, b1[j] as int) by {
            assert(break_ok(b, b1[j] as int));
            assert(b1[j] + 3 <= idx || idx + 3 <= b1[j]);
        }
    }
    assert forall|i: int| 0 <= i < n - 1 implies #[trigger] breaks(c, i) == breaks(a, i) by { assert(breaks(b, i) == breaks(a, i)); assert(breaks(c, i) == breaks(b, i)); }
}

/// the peephole: dropping the trailing Pop
pub proof fn lemma_gen_post_remove_last(a: Compiler, b: Compiler, c: Compiler, ok: bool)
    requires gen_post(a, b, ok), b.last_instruction == Some(OpCode::Pop), a.instructions@.len() < b.instructions@.len(),
             c.instructions@ == b.instructions@.drop_last(), c.last_instruction is None, hcovers(c.height@, 0),
             c.loop_contexts == b.loop_contexts, c.loop_h@ == b.loop_h@, c.locals_bound@ == b.locals_bound@, sym_same(c.symbols, b.symbols), c.constants == b.constants,
    ensures gen_post(a, c, false)
{
    let n = a.loop_contexts@.len() as int;
    if n > 0 {
        let b0 = breaks(a, n - 1); let b1 = breaks(b, n - 1);
        assert(breaks(c, n - 1) == b1);
        assert forall|j: int| b0.len() <= j < b1.len() implies a.instructions@.len() <= #[trigger] b1[j] && break_ok(c, b1[j] as int) by {
            assert(break_ok(b, b1[j] as int));
        }
    }
    assert forall|i: int| 0 <= i < n - 1 implies #[trigger] breaks(c, i) == breaks(a, i) by { assert(breaks(b, i) == breaks(a, i)); assert(breaks(c, i) == breaks(b, i)); }
}

// ---- step relations between two snapshots of the generator (each is what ONE helper's contract gives) ----
/// n > 0 bytes appended by emit_* calls, nothing else touched
pub open spec fn step_appended(b: Compiler, c: Compiler, n: int) -> bool {
    n > 0 && is_prefix(b.instructions@, c.instructions@) && c.instructions@.len() == b.instructions@.len() + n
        && sym_same(b.symbols, c.symbols) && b.loop_h@ == c.loop_h@ && b.locals_bound@ == c.locals_bound@ && b.constants == c.constants && b.loop_contexts == c.loop_contexts && gen_inv(c)
}
/// the operand of the jump at idx overwritten by change_jump_operand_at, nothing else touched
pub open spec fn step_patched(b: Compiler, c: Compiler, idx: int) -> bool {
    0 <= idx && idx + 2 < b.instructions@.len()
        && c.instructions@ == b.instructions@.update(idx + 1, c.instructions@[idx + 1]).update(idx + 2, c.instructions@[idx + 2])
        && c.last_instruction == b.last_instruction && sym_same(b.symbols, c.symbols) && b.loop_h@ == c.loop_h@ && b.locals_bound@ == c.locals_bound@ && b.constants == c.constants && b.loop_contexts == c.loop_contexts
}
/// `if self.last_instruction_is(Pop) { self.remove_last_instruction() }`
pub open spec fn step_peephole(b: Compiler, c: Compiler) -> bool {
    if b.last_instruction == Some(OpCode::Pop) {
        c.instructions@ == b.instructions@.drop_last() && c.last_instruction is None
            && sym_same(b.symbols, c.symbols) && b.loop_h@ == c.loop_h@ && b.locals_bound@ == c.locals_bound@ && b.constants == c.constants && b.loop_contexts == c.loop_contexts
    } else { c == b }
}

pub proof fn lemma_step_appended(b: Compiler, c: Compiler, n: int)
    requires step_appended(b, c, n)
    ensures gen_post(b, c, true)
{
    let ext = c.instructions@.subrange(b.instructions@.len() as int, c.instructions@.len() as int);
    assert(c.instructions@ =~= b.instructions@ + ext);
    lemma_gen_post_append(b, c, ext);
}

/// constants only grow, scope depth and number of function contexts are back where they were
pub open spec fn consts_syms_kept(a: Compiler, c: Compiler) -> bool {
    a.constants@.len() <= c.constants@.len() && (forall|i: int| 0 <= i < a.constants@.len() ==> c.constants@[i] == a.constants@[i])
        && sym_depth(c.symbols) == sym_depth(a.symbols) && sym_contexts(c.symbols) == sym_contexts(a.symbols) && sym_outer(c.symbols) == sym_outer(a.symbols) && sym_outer_sizes(c.symbols) == sym_outer_sizes(a.symbols)
        && sym_max_size(c.symbols) >= sym_max_size(a.symbols) && c.locals_bound@ >= a.locals_bound@
}
/// a generator that leaves EVERY loop context exactly as it found it (Expr::While pops the context it pushed;
/// Expr::Function swaps the enclosing contexts out and back)
pub proof fn lemma_gen_post_closed_loop(a: Compiler, c: Compiler)
    requires is_prefix(a.instructions@, c.instructions@), c.instructions@.len() > a.instructions@.len(), gen_inv(c),
             same_loops(c, a), c.loop_h@ == a.loop_h@, c.locals_bound@ >= a.locals_bound@, sym_max_size(c.symbols) >= sym_max_size(a.symbols), consts_syms_kept(a, c),
    ensures gen_post(a, c, true)
{
    let n = a.loop_contexts@.len() as int;
    assert(c.loop_contexts@.len() == n);
    assert forall|i: int| 0 <= i < n implies #[trigger] c.loop_contexts@[i].start == a.loop_contexts@[i].start by {}
    assert forall|i: int| 0 <= i < n - 1 implies #[trigger] breaks(c, i) == breaks(a, i) by { assert(c.loop_contexts@[i].start == a.loop_contexts@[i].start); }
    if n > 0 { assert(c.loop_contexts@[n - 1].start == a.loop_contexts@[n - 1].start); assert(breaks(c, n - 1) == breaks(a, n - 1)); assert(breaks(c, n - 1).subrange(0, breaks(a, n - 1).len() as int) =~= breaks(a, n - 1)); }
}

/// ghost-only changes (the log, a join of static heights) do not disturb the generator contract, as long as a
/// remembered `antwoord` still means dead code
pub proof fn lemma_gen_post_ghost(a: Compiler, b: Compiler, c: Compiler, ok: bool)
    requires gen_post(a, b, ok), sym_same(c.symbols, b.symbols), c.constants == b.constants, c.instructions == b.instructions,
             c.last_instruction == b.last_instruction, c.loop_contexts == b.loop_contexts, c.loop_h@ == b.loop_h@, c.locals_bound@ == b.locals_bound@, (c.last_instruction == Some(OpCode::ReturnValue) ==> c.height@ is Dead) && hcovers(c.height@, 0),
    ensures gen_post(a, c, ok)
{
    let n = a.loop_contexts@.len() as int;
    assert forall|i: int| 0 <= i < n - 1 implies #[trigger] breaks(c, i) == breaks(a, i) by { assert(breaks(b, i) == breaks(a, i)); }
    if n > 0 {
        assert(breaks(c, n - 1) == breaks(b, n - 1));
        assert forall|j: int| breaks(a, n - 1).len() <= j < breaks(c, n - 1).len() implies a.instructions@.len() <= #[trigger] breaks(c, n - 1)[j] && break_ok(c, breaks(c, n - 1)[j] as int) by {
            assert(break_ok(b, breaks(b, n - 1)[j] as int));
        }
    }
}
