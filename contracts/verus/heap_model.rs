// ---- heap_model.rs: the ABSTRACT heap shared by the units on src/gc.rs and on Object::free_recursive --------
// address, tag and array contents of an object word are uninterpreted; raw-memory operations carry assumed contracts
global size_of usize == 8;
//@TYPE file=object.rs name=Type attrs="#[derive(PartialEq, Eq, Structural)]"

#[derive(Copy, Clone)]
pub struct Object(pub usize);

pub uninterp spec fn is_heap(o: Object) -> bool;
pub uninterp spec fn addr(o: Object) -> int;
pub uninterp spec fn spec_tag(o: Object) -> Type;
/// the elements of the array an (array) word points to, at the time of the collection
pub uninterp spec fn elems(o: Object) -> Seq<Object>;
/// the permission to release an object: granted by the caller of the collector, never assumed by it
pub uninterp spec fn may_free(o: Object) -> bool;

// ASSUMED (heap typing): an allocation is referred to by one word only (address + the tag of what was allocated)
#[verifier::external_body]
pub proof fn axiom_one_word_per_address(a: Object, b: Object)
    requires is_heap(a), is_heap(b), addr(a) == addr(b)
    ensures a == b
{}

// PROVED-BY: O15.5 c15_tag_total (is_heap_allocated == "tag bits >= Float", tag == the tag bits)
#[verifier::external_body]
pub proof fn axiom_heap_tags(o: Object)
    ensures is_heap(o) == (spec_tag(o) == Type::Float || spec_tag(o) == Type::String || spec_tag(o) == Type::Array)
{}

impl Object {
    // PROVED-BY: O15.5 c15_tag_total (the tag is a function of the word)
    #[verifier::external_body]
    pub fn is_heap_allocated(self) -> (b: bool) ensures b == is_heap(self) { unimplemented!() }
    #[verifier::external_body]
    pub fn tag(self) -> (t: Type) ensures t == spec_tag(self) { unimplemented!() }
    // ASSUMED: reads the Vec behind an array word (unsafe in the real code: the unit must prove the word IS an array)
    #[verifier::external_body]
    pub fn as_vec_unchecked(&self) -> (r: &Vec<Object>)
        requires is_heap(*self), spec_tag(*self) == Type::Array
        ensures r@ == elems(*self)
    { unimplemented!() }
    // ASSUMED: releases the allocation; only ever legal with the caller's permission
    #[verifier::external_body]
    pub fn free(self) requires is_heap(self), may_free(self) { unimplemented!() }
}

// R8w: `v.iter().position(|a| std::ptr::eq(a.as_ptr(), o.as_ptr()))` - std contract of Iterator::position for the
// predicate "same address": the first such index, None when there is none
#[verifier::external_body]
pub fn position_by_ptr(v: &Vec<Object>, o: &Object) -> (r: Option<usize>)
    ensures
        match r {
            Some(k) => k < v@.len() && addr(v@[k as int]) == addr(*o) && forall|j: int| 0 <= j < k ==> addr(#[trigger] v@[j]) != addr(*o),
            None => forall|j: int| 0 <= j < v@.len() ==> addr(#[trigger] v@[j]) != addr(*o),
        }
{ unimplemented!() }
// R8w: `v.iter().any(|a| std::ptr::eq(a.as_ptr(), o.as_ptr()))`
#[verifier::external_body]
pub fn any_by_ptr(v: &Vec<Object>, o: &Object) -> (r: bool)
    ensures r == managed(v@, *o)
{ unimplemented!() }

pub open spec fn managed(objs: Seq<Object>, o: Object) -> bool {
    exists|j: int| 0 <= j < objs.len() && addr(#[trigger] objs[j]) == addr(o)
}
pub open spec fn distinct(objs: Seq<Object>) -> bool {
    forall|i: int, j: int| 0 <= i < objs.len() && 0 <= j < objs.len() && i != j ==> addr(#[trigger] objs[i]) != addr(#[trigger] objs[j])
}
pub open spec fn all_heap(objs: Seq<Object>) -> bool {
    forall|i: int| 0 <= i < objs.len() ==> is_heap(#[trigger] objs[i])
}
