// ---- opcodes.rs: the opcode set shared by compiler and machine, and the MEANING tables -----------------
// `OpCode` has the variants of src/compiler.rs. The three spec tables below are the single place where the
// property-level meaning of opcodes is written down; unit c02_arms proves that each machine arm computes
// `generic_sem` / `fused_sem` of its opcode, units c10_fused / c11_* prove that the compiler emits an opcode
// whose table entry is the source operator's meaning.
//@TYPE file=compiler.rs name=OpCode attrs="#[derive(Copy, Clone, PartialEq, Eq, Structural)]"
/// the byte an opcode is encoded as. PROVED-BY: O02.op c02_opcode_roundtrip (`as u8` / OpCode::from are inverse,
/// hence injective) - the concrete numbers never matter because compiler and machine share the enum.
pub uninterp spec fn opcode_byte(op: OpCode) -> u8;

/// the 16-bit little-endian operand at offset i of the code
pub open spec fn u16_at(code: Seq<u8>, i: int) -> int { code[i] as int + 256 * (code[i + 1] as int) }

pub open spec fn op_add() -> int { 0 }
pub open spec fn op_sub() -> int { 1 }
pub open spec fn op_mul() -> int { 2 }
pub open spec fn op_div() -> int { 3 }
pub open spec fn op_rem() -> int { 4 }
pub open spec fn op_lt() -> int { 5 }
pub open spec fn op_lte() -> int { 6 }
pub open spec fn op_gt() -> int { 7 }
pub open spec fn op_gte() -> int { 8 }
pub open spec fn op_eq() -> int { 9 }
pub open spec fn op_neq() -> int { 10 }
pub open spec fn op_and() -> int { 11 }
pub open spec fn op_or() -> int { 12 }
pub open spec fn op_none() -> int { -1 }

/// operator applied by a generic (stack) opcode to (second-from-top, top)
pub open spec fn generic_sem(o: OpCode) -> int {
    match o {
        OpCode::Add => op_add(), OpCode::Subtract => op_sub(), OpCode::Multiply => op_mul(), OpCode::Divide => op_div(), OpCode::Modulo => op_rem(),
        OpCode::Lt => op_lt(), OpCode::Lte => op_lte(), OpCode::Gt => op_gt(), OpCode::Gte => op_gte(), OpCode::Eq => op_eq(), OpCode::Neq => op_neq(),
        OpCode::And => op_and(), OpCode::Or => op_or(),
        _ => op_none(),
    }
}
/// operator applied by a fused opcode to (local, constant)
pub open spec fn fused_sem(o: OpCode) -> int {
    match o {
        OpCode::AddLocalConst => op_add(), OpCode::SubtractLocalConst => op_sub(), OpCode::MultiplyLocalConst => op_mul(),
        OpCode::DivideLocalConst => op_div(), OpCode::ModuloLocalConst => op_rem(),
        OpCode::LtLocalConst => op_lt(), OpCode::LteLocalConst => op_lte(), OpCode::GtLocalConst => op_gt(), OpCode::GteLocalConst => op_gte(),
        OpCode::EqLocalConst => op_eq(), OpCode::NeqLocalConst => op_neq(),
        _ => op_none(),
    }
}
/// mirror law table of the property statement: op(a, b) == mirror(op)(b, a).
/// PROVED-BY: lemma_mirror (unit c10_fused) over the integer contracts O06.1 / O06.2 / O06.3 (each operator is the
/// mathematical operator on in-range integers); a non-integer local with an integer constant is a TypeError in
/// either order (O06.5a)
pub open spec fn mirror_sem(op: int) -> int {
    if op == op_add() || op == op_mul() || op == op_eq() || op == op_neq() { op }
    else if op == op_lt() { op_gt() } else if op == op_gt() { op_lt() }
    else if op == op_lte() { op_gte() } else if op == op_gte() { op_lte() }
    else { op_none() }
}

// ---- static stack effect (the compile-side half of "the operand stack is never popped when empty") ------------
/// net effect of executing `op` on the height of the operand stack, as far as it does not depend on an operand
/// (Call, Array and CallBuiltin additionally consume as many values as their operand says: call_operand_delta).
/// PROVED on the machine side: unit c02_arms states the exact stack of every arm after the step, whose length is
/// the old length plus this number (for the three operand-dependent opcodes: plus call_operand_delta as well).
pub open spec fn op_delta(op: OpCode) -> int {
    match op {
        OpCode::Const | OpCode::True | OpCode::False | OpCode::Null | OpCode::GetLocal | OpCode::GetGlobal => 1,
        OpCode::GtLocalConst | OpCode::GteLocalConst | OpCode::LtLocalConst | OpCode::LteLocalConst | OpCode::EqLocalConst | OpCode::NeqLocalConst
        | OpCode::AddLocalConst | OpCode::SubtractLocalConst | OpCode::MultiplyLocalConst | OpCode::DivideLocalConst | OpCode::ModuloLocalConst => 1,
        OpCode::Pop | OpCode::SetLocal | OpCode::SetGlobal | OpCode::JumpIfFalse | OpCode::IndexGet => -1,
        OpCode::Add | OpCode::Subtract | OpCode::Multiply | OpCode::Divide | OpCode::Modulo | OpCode::Lt | OpCode::Lte | OpCode::Gt | OpCode::Gte
        | OpCode::Eq | OpCode::Neq | OpCode::And | OpCode::Or => -1,
        OpCode::IndexSet => -2,
        OpCode::Array | OpCode::CallBuiltin => 1,
        _ => 0,   // Not, Negate, Halt, Call (before its operand), Jump / Return / ReturnValue (end the flow: op_ends_flow)
    }
}
/// control does not continue with the next instruction
pub open spec fn op_ends_flow(op: OpCode) -> bool { op == OpCode::Jump || op == OpCode::Return || op == OpCode::ReturnValue }
/// static height of the operand stack at a code position: Dead = no path reaches it; At(h) = every path that reaches
/// it does so with h values on the stack (relative to the start of the flow); Conflict = two paths disagree (poison:
/// nothing can be proved from it)
pub enum H { Dead, At(int), Conflict }
pub open spec fn hplus(h: H, k: int) -> H { match h { H::At(v) => H::At(v + k), _ => h } }
/// a piece of code that starts at height `pre` ends at height pre + k on every path that falls out of its end (it
/// may have no such path: Dead)
pub open spec fn hstep(pre: H, post: H, k: int) -> bool {
    match pre { H::At(v) => post is Dead || post == H::At(v + k), H::Dead => post is Dead, H::Conflict => post is Dead || post is Conflict }
}
/// two flows meet at one position (a forward jump lands at the current end of the code)
pub open spec fn hjoin(a: H, b: H) -> H {
    match (a, b) {
        (H::Dead, _) => b,
        (_, H::Dead) => a,
        (H::At(v), H::At(w)) => if v == w { a } else { H::Conflict },
        _ => H::Conflict,
    }
}

/// how many values an opcode takes from the operand stack before it pushes its result (operand-dependent part of
/// Call / Array / CallBuiltin is checked by the arm that emits the operand). PROVED on the machine side: these are
/// the `stack@.len() >= ..` preconditions of the arms in unit c02_arms (each arm pops at most this many).
pub open spec fn op_needs(op: OpCode) -> int {
    match op {
        OpCode::Pop | OpCode::SetLocal | OpCode::SetGlobal | OpCode::JumpIfFalse | OpCode::Not | OpCode::Negate | OpCode::ReturnValue => 1,
        OpCode::Add | OpCode::Subtract | OpCode::Multiply | OpCode::Divide | OpCode::Modulo | OpCode::Lt | OpCode::Lte | OpCode::Gt | OpCode::Gte
        | OpCode::Eq | OpCode::Neq | OpCode::And | OpCode::Or | OpCode::IndexGet => 2,
        OpCode::IndexSet => 3,
        _ => 0,
    }
}
/// the static height covers what an instruction pops (dead code pops nothing at run time)
pub open spec fn hcovers(h: H, k: int) -> bool { match h { H::At(v) => v >= k, _ => true } }
