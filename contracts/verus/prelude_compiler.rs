// ---- prelude_compiler.rs: the types of src/ast.rs, src/symbols.rs and src/compiler.rs as Verus sees them (R8) ----
#[derive(PartialEq, Eq, Structural)]
pub enum Operator { Add, Subtract, Multiply, Divide, Gt, Gte, Lt, Lte, Eq, Neq, Not, Negate, And, Or, Modulo, Assign }

pub enum Stmt { Let(String, Expr), Return(Expr), Expr(Expr), Block(Vec<Stmt>), Break, Continue }
pub enum Expr {
    Infix { left: Box<Expr>, operator: Operator, right: Box<Expr> },
    Prefix { operator: Operator, right: Box<Expr> },
    Int { value: isize },
    Float { value: f64 },
    Bool { value: bool },
    If { condition: Box<Expr>, consequence: Vec<Stmt>, alternative: Option<Vec<Stmt>> },
    Identifier(String),
    Function { name: String, parameters: Vec<String>, body: Vec<Stmt> },
    Call { left: Box<Expr>, arguments: Vec<Expr> },
    Assign { left: Box<Expr>, right: Box<Expr> },
    String { value: String },
    Array { values: Vec<Expr> },
    Index { left: Box<Expr>, index: Box<Expr> },
    While { condition: Box<Expr>, body: Vec<Stmt> },
}

#[derive(PartialEq, Eq, Structural, Copy, Clone)]
pub enum Scope { Local, Global }
pub struct Symbol { pub scope: Scope, pub index: u16 }

/// the symbol table is opaque here; its own contracts are the C09 obligations (Kani, bounded) on src/symbols.rs
#[verifier::external_body]
pub struct SymbolTable { _p: usize }
pub uninterp spec fn sym_resolve(t: SymbolTable, name: Seq<char>) -> Option<Symbol>;
pub uninterp spec fn sym_in_function(t: SymbolTable) -> bool;
impl SymbolTable {
    // PROVED-BY: C09 obligations (resolve does not modify the table)
    #[verifier::external_body]
    pub fn resolve(&mut self, name: &str) -> (r: Option<Symbol>)
        ensures r == sym_resolve(*old(self), name@), *final(self) == *old(self)
    { unimplemented!() }
    #[verifier::external_body]
    pub fn in_function(&self) -> (r: bool) ensures r == sym_in_function(*self) { unimplemented!() }
}

pub struct LoopContext { pub start: usize, pub break_instructions: Vec<usize> }

/// ghost log of the recursive code-generation calls made so far (which sub-tree, in which order)
pub enum LogEntry { E(Expr), B(Seq<Stmt>), S(Stmt) }

pub struct Compiler {
    /// GHOST (not in the real struct, never constructed by extracted code): see LogEntry
    pub log: Ghost<Seq<LogEntry>>,
    pub symbols: SymbolTable,
    pub constants: Vec<Object>,
    pub instructions: Vec<u8>,
    pub last_instruction: Option<OpCode>,
    pub loop_contexts: Vec<LoopContext>,
    pub gc: GC,
}

pub open spec fn le16(v: int) -> Seq<u8> { seq![(v % 256) as u8, (v / 256) as u8] }
/// frame condition of the emit helpers: only the code buffer (and last_instruction for emit_opcode) changes
pub open spec fn same_but_code(a: Compiler, b: Compiler) -> bool {
    a.symbols == b.symbols && a.constants == b.constants && a.loop_contexts == b.loop_contexts && a.log@ == b.log@
}
pub open spec fn is_prefix(a: Seq<u8>, b: Seq<u8>) -> bool { a.len() <= b.len() && b.subrange(0, a.len() as int) =~= a }
/// global invariant of the code buffer that the last-instruction peephole relies on: if the last opcode
/// emitted is remembered as Pop, the last byte of the buffer IS that Pop
pub open spec fn peephole_inv(c: Compiler) -> bool {
    c.last_instruction == Some(OpCode::Pop) ==> (c.instructions@.len() > 0 && c.instructions@.last() == opcode_byte(OpCode::Pop))
}

impl Compiler {
    // PROVED-BY: O02.emit c02_emit (Kani, real Compiler::emit_opcode / emit_u8 / emit_u16)
    #[verifier::external_body]
    fn emit_opcode(&mut self, op: OpCode)
        ensures final(self).instructions@ == old(self).instructions@.push(opcode_byte(op)), final(self).last_instruction == Some(op), same_but_code(*old(self), *final(self))
    { unimplemented!() }
    #[verifier::external_body]
    fn emit_u8(&mut self, v: u8)
        ensures final(self).instructions@ == old(self).instructions@.push(v), final(self).last_instruction == old(self).last_instruction, same_but_code(*old(self), *final(self))
    { unimplemented!() }
    #[verifier::external_body]
    fn emit_u16(&mut self, v: u16)
        ensures final(self).instructions@ == old(self).instructions@ + le16(v as int), final(self).last_instruction == old(self).last_instruction, same_but_code(*old(self), *final(self))
    { unimplemented!() }
    // PROVED-BY: O10.1 c10_add_constant (Kani, bounded pool): the returned slot holds the value; earlier slots unchanged
    #[verifier::external_body]
    fn add_constant(&mut self, obj: Object) -> (idx: u16)
        ensures
            (idx as int) < final(self).constants@.len(),
            spec_tag(final(self).constants@[idx as int]) == spec_tag(obj),
            spec_tag(obj) == Type::Int ==> spec_int(final(self).constants@[idx as int]) == spec_int(obj),
            spec_tag(obj) == Type::Function ==> final(self).constants@[idx as int] == obj,
            old(self).constants@.len() <= final(self).constants@.len(),
            forall|i: int| 0 <= i < old(self).constants@.len() ==> final(self).constants@[i] == old(self).constants@[i],
            final(self).instructions == old(self).instructions, final(self).last_instruction == old(self).last_instruction,
            final(self).symbols == old(self).symbols, final(self).loop_contexts == old(self).loop_contexts, final(self).log@ == old(self).log@,
    { unimplemented!() }

    /// The recursive code generators as their callers see them (induction hypothesis of the structural
    /// induction over the tree; every arm that calls them is verified against exactly this contract):
    /// append-only on the code buffer, constants only grow, loop nesting depth restored, invariant kept,
    /// and the call is recorded in the ghost log.
    #[verifier::external_body]
    fn compile_expression(&mut self, expr: &Expr) -> (r: Result<(), Error>)
        requires peephole_inv(*old(self))
        ensures
            final(self).log@ == old(self).log@.push(LogEntry::E(*expr)),
            is_prefix(old(self).instructions@, final(self).instructions@),
            r is Ok ==> final(self).instructions@.len() > old(self).instructions@.len(),
            peephole_inv(*final(self)),
            final(self).loop_contexts@.len() == old(self).loop_contexts@.len(),
            forall|i: int| 0 <= i < old(self).loop_contexts@.len() ==> final(self).loop_contexts@[i].start == old(self).loop_contexts@[i].start,
            old(self).constants@.len() <= final(self).constants@.len(),
            forall|i: int| 0 <= i < old(self).constants@.len() ==> final(self).constants@[i] == old(self).constants@[i],
    { unimplemented!() }
    #[verifier::external_body]
    fn compile_block_statement(&mut self, stmts: &[Stmt]) -> (r: Result<(), Error>)
        requires peephole_inv(*old(self))
        ensures
            final(self).log@ == old(self).log@.push(LogEntry::B(stmts@)),
            is_prefix(old(self).instructions@, final(self).instructions@),
            r is Ok ==> final(self).instructions@.len() > old(self).instructions@.len(),
            peephole_inv(*final(self)),
            final(self).loop_contexts@.len() == old(self).loop_contexts@.len(),
            forall|i: int| 0 <= i < old(self).loop_contexts@.len() ==> final(self).loop_contexts@[i].start == old(self).loop_contexts@[i].start,
            old(self).constants@.len() <= final(self).constants@.len(),
            forall|i: int| 0 <= i < old(self).constants@.len() ==> final(self).constants@[i] == old(self).constants@[i],
    { unimplemented!() }
}

impl Object {
    // PROVED-BY: unit c06_arith (verbatim body of Object::checked_int)
    #[verifier::external_body]
    pub fn checked_int(value: Option<isize>) -> (r: Result<Object, Error>)
        ensures
            (value is Some && MIN_INT <= value->Some_0 <= MAX_INT) ==> (r is Ok && spec_tag(r->Ok_0) == Type::Int && spec_int(r->Ok_0) == value->Some_0),
            !(value is Some && MIN_INT <= value->Some_0 <= MAX_INT) ==> r is Err,
    { unimplemented!() }
}
