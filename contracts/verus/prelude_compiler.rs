// ---- prelude_compiler.rs: the types of src/ast.rs, src/symbols.rs and src/compiler.rs as Verus sees them (R8) ----
//@TYPE file=ast.rs name=Operator attrs="#[derive(PartialEq, Eq, Structural, Clone, Copy)]"

/// meaning of a source operator (property-level table)
pub open spec fn operator_sem(o: Operator) -> int {
    match o {
        Operator::Add => op_add(), Operator::Subtract => op_sub(), Operator::Multiply => op_mul(), Operator::Divide => op_div(), Operator::Modulo => op_rem(),
        Operator::Lt => op_lt(), Operator::Lte => op_lte(), Operator::Gt => op_gt(), Operator::Gte => op_gte(), Operator::Eq => op_eq(), Operator::Neq => op_neq(),
        Operator::And => op_and(), Operator::Or => op_or(),
        _ => op_none(),
    }
}

//@TYPE file=ast.rs name=Stmt
//@TYPE file=ast.rs name=BlockStmt
//@TYPE file=ast.rs name=Expr

//@INCLUDE symbols_spec.rs
impl SymbolTable {
//@ASSUMES unit=c09_names.rs after="impl SymbolTable {" fn=resolve full=1
//@ASSUMES unit=c09_names.rs after="impl SymbolTable {" fn=in_function full=1
//@ASSUMES unit=c09_names.rs after="impl SymbolTable {" fn=define full=1
//@ASSUMES unit=c09_names.rs after="impl SymbolTable {" fn=enter_scope full=1
//@ASSUMES unit=c09_names.rs after="impl SymbolTable {" fn=leave_scope full=1
//@ASSUMES unit=c09_names.rs after="impl SymbolTable {" fn=new_context full=1
//@ASSUMES unit=c09_names.rs after="impl SymbolTable {" fn=leave_context full=1
//@ASSUMES unit=c09_names.rs after="impl SymbolTable {" fn=reset_to_global full=1
//@ASSUMES unit=c09_names.rs after="impl SymbolTable {" fn=global_len full=1
}
pub struct Builtin { pub byte: u8 }
pub uninterp spec fn builtin_of_name(name: Seq<char>) -> Option<u8>;
pub mod builtins {
    use super::*;
    // PROVED-BY: O14.1n c14_resolve_names (bounded: concrete names), O14.1 (bytes 0..=6)
    #[verifier::external_body]
    pub fn resolve(name: &str) -> (r: Option<Builtin>)
        ensures (r is Some) == (builtin_of_name(name@) is Some), r is Some ==> r->Some_0.byte == builtin_of_name(name@)->Some_0 && r->Some_0.byte <= 6
    { unimplemented!() }
}

// R11: std::mem::take on a Vec (no vstd specification): returns the old value and leaves an empty Vec behind
#[verifier::external_body]
pub fn mem_take_vec<T>(v: &mut Vec<T>) -> (r: Vec<T>) ensures r@ == old(v)@, final(v)@.len() == 0 { std::mem::take(v) }

/// `a == b` under Object's PartialEq with equal tags (the test add_constant uses to re-use a slot)
pub uninterp spec fn pool_equal(a: Object, b: Object) -> bool;
//@TYPE file=compiler.rs name=LoopContext

/// ghost log of the recursive code-generation calls made so far (which sub-tree, in which order)
pub enum LogWhat { E(Expr), B(Seq<Stmt>), S(Stmt), Stops(Seq<usize>) }
/// `depth` / `contexts` / `names`: block-scope depth, number of function contexts and number of names declared in the
/// current context when the call was made
pub ghost struct LogEntry { pub what: LogWhat, pub start: int, pub end: int, pub depth: int, pub contexts: int, pub names: int }
pub open spec fn entry_e(e: Expr, pre: Compiler, post: Compiler) -> LogEntry { LogEntry { what: LogWhat::E(e), start: pre.instructions@.len() as int, end: post.instructions@.len() as int, depth: sym_depth(pre.symbols), contexts: sym_contexts(pre.symbols), names: sym_count(pre.symbols) } }
pub open spec fn entry_s(st: Stmt, pre: Compiler, post: Compiler) -> LogEntry { LogEntry { what: LogWhat::S(st), start: pre.instructions@.len() as int, end: post.instructions@.len() as int, depth: sym_depth(pre.symbols), contexts: sym_contexts(pre.symbols), names: sym_count(pre.symbols) } }

// the real fields + GHOST field `log` (not in the real struct, never constructed by extracted code): see LogEntry
//@TYPE file=compiler.rs name=Compiler extra="pub log: Ghost<Seq<LogEntry>>, pub height: Ghost<H>, pub loop_h: Ghost<Seq<H>>, pub locals_bound: Ghost<int>,"

/// state invariant of code generation (requires AND ensures of every generator): the peephole invariant
pub open spec fn gen_inv(c: Compiler) -> bool {
    peephole_inv(c) && sym_wf(c.symbols)
    // a remembered `antwoord` means nothing falls out of the end of the code (what the Function arm's peephole relies on)
    && (c.last_instruction == Some(OpCode::ReturnValue) ==> c.height@ is Dead)
    // static heights count values of the current flow's operand area: never negative
    && hcovers(c.height@, 0)
    // O02.slot: every local-slot operand emitted so far in the function being compiled (ghost: one more than the
    // largest) lies below the size its context reports - which is the slot count Call reserves for the function
    && 0 <= c.locals_bound@ <= sym_max_size(c.symbols)
}

/// the pending-`stop` list of loop context i, as positions
pub open spec fn breaks(c: Compiler, i: int) -> Seq<usize> { c.loop_contexts@[i].break_instructions@ }
/// two compilers have the same loop nesting: same depth, same starts, same pending-stop positions
pub open spec fn same_loops(a: Compiler, b: Compiler) -> bool {
    a.loop_contexts@.len() == b.loop_contexts@.len()
        && forall|i: int| 0 <= i < a.loop_contexts@.len() ==> #[trigger] a.loop_contexts@[i].start == b.loop_contexts@[i].start && breaks(a, i) == breaks(b, i)
}
/// a recorded `stop` is the position of a Jump opcode with both operand bytes inside the buffer - and it is not
/// the trailing Pop that the peephole may remove
pub open spec fn break_ok(c: Compiler, p: int) -> bool {
    0 <= p && p + 3 <= c.instructions@.len() && c.instructions@[p] == opcode_byte(OpCode::Jump)
        && (c.last_instruction == Some(OpCode::Pop) ==> p + 3 <= c.instructions@.len() - 1)
}
/// what a generator may do (induction hypothesis for the recursive calls): bytes emitted earlier are never
/// touched; success emits at least one byte; the invariant is kept; loop nesting is restored and only the
/// INNERMOST loop's pending-stop list may grow - by jumps that lie inside the newly emitted code, in increasing
/// order, at least one instruction apart; constants only grow.
pub open spec fn gen_post(pre: Compiler, post: Compiler, ok: bool) -> bool {
    let n = pre.loop_contexts@.len() as int;
    &&& is_prefix(pre.instructions@, post.instructions@)
    &&& (ok ==> post.instructions@.len() > pre.instructions@.len())
    &&& gen_inv(post)
    &&& post.loop_contexts@.len() == n
    &&& (forall|i: int| 0 <= i < n ==> #[trigger] post.loop_contexts@[i].start == pre.loop_contexts@[i].start)
    &&& (forall|i: int| 0 <= i < n - 1 ==> #[trigger] breaks(post, i) == breaks(pre, i))
    &&& (n > 0 ==> {
            let (b0, b1) = (breaks(pre, n - 1), breaks(post, n - 1));
            &&& b0.len() <= b1.len() && b1.subrange(0, b0.len() as int) =~= b0
            &&& (forall|j: int| b0.len() <= j < b1.len() ==> pre.instructions@.len() <= #[trigger] b1[j] && break_ok(post, b1[j] as int))
            &&& (forall|j: int, k: int| b0.len() <= j < k < b1.len() ==> #[trigger] b1[j] + 3 <= #[trigger] b1[k])
        })
    &&& pre.constants@.len() <= post.constants@.len()
    &&& (forall|i: int| 0 <= i < pre.constants@.len() ==> post.constants@[i] == pre.constants@[i])
    // the reported size of the current context only grows; the ghost bound of emitted local slots never shrinks
    &&& sym_max_size(post.symbols) >= sym_max_size(pre.symbols)
    &&& post.locals_bound@ >= pre.locals_bound@
    // GHOST: the static height every enclosing loop expects at its exit / at its start label (one entry per loop context)
    &&& post.loop_h@ == pre.loop_h@
    &&& (ok ==> sym_depth(post.symbols) == sym_depth(pre.symbols) && sym_contexts(post.symbols) == sym_contexts(pre.symbols) && sym_outer(post.symbols) == sym_outer(pre.symbols) && sym_outer_sizes(post.symbols) == sym_outer_sizes(pre.symbols))
}

/// value of the placeholder operand (src/compiler.rs JUMP_PLACEHOLDER); every placeholder is overwritten, so the
/// number itself is irrelevant to the contracts
pub const JUMP_PLACEHOLDER: u16 = 1337;

/// what compile_block_statement does (verified on its real body in unit c02_blocks): an empty block is exactly one
/// Null and touches neither scopes nor the log; a non-empty block compiles EVERY statement, in order, back to back,
/// ONE SCOPE DEEPER than the block itself (ghost log entries of the statement generator), and returns to the block's
/// own depth.
pub open spec fn block_post(pre: Compiler, post: Compiler, stmts: Seq<Stmt>, ok: bool) -> bool {
    let k = pre.log@.len() as int;
    let m = stmts.len() as int;
    &&& (m == 0 ==> ok && post.instructions@ == pre.instructions@.push(opcode_byte(OpCode::Null)) && post.symbols == pre.symbols && post.log@ == pre.log@
            && post.last_instruction == Some(OpCode::Null) && post.loop_contexts == pre.loop_contexts && post.constants == pre.constants)
    &&& ((m > 0 && ok) ==> {
            &&& post.log@.len() == k + m
            &&& (forall|i: int| 0 <= i < k ==> #[trigger] post.log@[i] == pre.log@[i])
            &&& (forall|j: int| 0 <= j < m ==> #[trigger] post.log@[k + j].what == LogWhat::S(stmts[j])
                    && post.log@[k + j].depth == sym_depth(pre.symbols) + 1 && post.log@[k + j].contexts == sym_contexts(pre.symbols))
            &&& post.log@[k].start == pre.instructions@.len()
            &&& (forall|j: int| 0 <= j < m - 1 ==> #[trigger] post.log@[k + j].end == post.log@[k + j + 1].start)
            &&& post.log@[k + m - 1].end == post.instructions@.len()
            &&& sym_depth(post.symbols) == sym_depth(pre.symbols) && sym_contexts(post.symbols) == sym_contexts(pre.symbols)
        })
    &&& (ok ==> is_prefix(pre.instructions@, post.instructions@) && gen_inv(post) && post.instructions@.len() > pre.instructions@.len())
}

/// what compile_block_value does (verified on its real body in unit c02_blocks): the block, then the peephole that
/// turns it into a VALUE - an empty block is its one Null; otherwise the trailing Pop of the last (expression)
/// statement is dropped, or, when the block does not end in one, a Null is appended. Nothing emitted before is
/// touched; the block's statements are logged as by compile_block_statement; scopes are back.
pub open spec fn block_value_post(pre: Compiler, post: Compiler, stmts: Seq<Stmt>) -> bool {
    let k = pre.log@.len() as int;
    let m = stmts.len() as int;
    &&& gen_post(pre, post, false)
    &&& sym_depth(post.symbols) == sym_depth(pre.symbols) && sym_contexts(post.symbols) == sym_contexts(pre.symbols) && sym_outer(post.symbols) == sym_outer(pre.symbols) && sym_outer_sizes(post.symbols) == sym_outer_sizes(pre.symbols)
    &&& (m == 0 ==> post.instructions@ == pre.instructions@.push(opcode_byte(OpCode::Null)) && post.log@ == pre.log@ && post.last_instruction == Some(OpCode::Null))
    &&& (m > 0 ==> {
            &&& post.log@.len() == k + m
            &&& (forall|i: int| 0 <= i < k ==> #[trigger] post.log@[i] == pre.log@[i])
            &&& (forall|j: int| 0 <= j < m ==> #[trigger] post.log@[k + j].what == LogWhat::S(stmts[j])
                    && post.log@[k + j].depth == sym_depth(pre.symbols) + 1 && post.log@[k + j].contexts == sym_contexts(pre.symbols))
            &&& post.log@[k].start == pre.instructions@.len()
            &&& (forall|j: int| 0 <= j < m - 1 ==> #[trigger] post.log@[k + j].end == post.log@[k + j + 1].start)
            &&& pre.instructions@.len() < post.log@[k + m - 1].end
            // the value peephole: one byte (the trailing Pop) less than the block's code, or one Null more
            &&& ((post.instructions@.len() == post.log@[k + m - 1].end - 1 && post.last_instruction is None)
                 || (post.instructions@.len() == post.log@[k + m - 1].end + 1 && post.instructions@.last() == opcode_byte(OpCode::Null) && post.last_instruction == Some(OpCode::Null)))
        })
}

pub open spec fn le16(v: int) -> Seq<u8> { seq![(v % 256) as u8, (v / 256) as u8] }
/// frame condition of the emit helpers: only the code buffer (and last_instruction for emit_opcode) changes
pub open spec fn same_but_code(a: Compiler, b: Compiler) -> bool {
    a.symbols == b.symbols && a.constants == b.constants && a.loop_contexts == b.loop_contexts && a.log@ == b.log@ && a.loop_h@ == b.loop_h@ && a.locals_bound@ == b.locals_bound@
}
pub open spec fn is_prefix(a: Seq<u8>, b: Seq<u8>) -> bool { a.len() <= b.len() && forall|k: int| 0 <= k < a.len() ==> #[trigger] b[k] == a[k] }
/// global invariant of the code buffer that the last-instruction peepholes rely on: if the last opcode emitted is
/// remembered as Pop (resp. ReturnValue), the last byte of the buffer IS that opcode (both have no operands)
pub open spec fn no_operand_tail(op: OpCode) -> bool { op == OpCode::Pop || op == OpCode::ReturnValue }
pub open spec fn peephole_inv(c: Compiler) -> bool {
    (c.last_instruction is Some && no_operand_tail(c.last_instruction->Some_0)) ==> (c.instructions@.len() > 0 && c.instructions@.last() == opcode_byte(c.last_instruction->Some_0))
}

impl Compiler {
    // PROVED-BY: O02.emit c02_emit (Kani, real Compiler::emit_opcode / emit_u8 / emit_u16)
    #[verifier::external_body]
    fn emit_opcode(&mut self, op: OpCode)
        // O02.pop (compile-side half of "the operand stack is never popped when empty"): on every path that reaches the
        // new instruction the static height covers what it pops - an obligation of EVERY call site in the generator
        requires hcovers(old(self).height@, op_needs(op))
        ensures final(self).instructions@ == old(self).instructions@.push(opcode_byte(op)), final(self).last_instruction == Some(op), same_but_code(*old(self), *final(self)),
                // GHOST instrumentation (definition of the static height): the emitted opcode's effect, or the end of the flow
                final(self).height@ == (if op_ends_flow(op) { H::Dead } else { hplus(old(self).height@, op_delta(op)) }),
                // DERIVED (lemma_emit_opcode_inv, unit c11_control): follows from the three facts above
                gen_inv(*old(self)) ==> gen_inv(*final(self)),
    { unimplemented!() }
    #[verifier::external_body]
    fn emit_u8(&mut self, v: u8)
        ensures final(self).instructions@ == old(self).instructions@.push(v), final(self).last_instruction == old(self).last_instruction, same_but_code(*old(self), *final(self)), final(self).height@ == old(self).height@,
                // DERIVED (lemma_emit_operand_inv, unit c11_control)
                (gen_inv(*old(self)) && !(old(self).last_instruction is Some && no_operand_tail(old(self).last_instruction->Some_0))) ==> gen_inv(*final(self)),
    { unimplemented!() }
    #[verifier::external_body]
    fn emit_u16(&mut self, v: u16)
        ensures final(self).instructions@ == old(self).instructions@ + le16(v as int), final(self).last_instruction == old(self).last_instruction, same_but_code(*old(self), *final(self)), final(self).height@ == old(self).height@,
                // DERIVED (lemma_emit_operand_inv, unit c11_control)
                (gen_inv(*old(self)) && !(old(self).last_instruction is Some && no_operand_tail(old(self).last_instruction->Some_0))) ==> gen_inv(*final(self)),
    { unimplemented!() }
    // PROVED-BY: O10.1 c10_add_constant (Kani, bounded pool): the returned slot holds the value; earlier slots unchanged
    // pool_equal: the slot compares equal to the value under Object's own PartialEq (O10.1, O10.1f; what that equality
    // means per type is C15/C06)
    #[verifier::external_body]
    fn add_constant(&mut self, obj: Object) -> (r: Result<u16, Error>)
        ensures
            r is Ok ==> ({
                let idx = r->Ok_0 as int;
                &&& idx < final(self).constants@.len()
                &&& spec_tag(final(self).constants@[idx]) == spec_tag(obj)
                &&& (spec_tag(obj) == Type::Int ==> spec_int(final(self).constants@[idx]) == spec_int(obj))
                &&& (spec_tag(obj) == Type::Function ==> final(self).constants@[idx] == obj)
                &&& pool_equal(final(self).constants@[idx], obj)
            }),
            old(self).constants@.len() <= final(self).constants@.len(),
            forall|i: int| 0 <= i < old(self).constants@.len() ==> final(self).constants@[i] == old(self).constants@[i],
            final(self).instructions == old(self).instructions, final(self).last_instruction == old(self).last_instruction,
            final(self).symbols == old(self).symbols, final(self).loop_contexts == old(self).loop_contexts, final(self).log@ == old(self).log@, final(self).height@ == old(self).height@, final(self).loop_h@ == old(self).loop_h@, final(self).locals_bound@ == old(self).locals_bound@,
            // DERIVED (code buffer, last_instruction and loop contexts are unchanged)
            gen_inv(*old(self)) ==> gen_inv(*final(self)),
    { unimplemented!() }

    /// O11.patch (Kani, real Compiler::change_jump_operand_at): requires a jump opcode at idx with both operand
    /// bytes inside the code (otherwise the function's assert! / indexing panics); ensures exactly those two
    /// bytes change.
    #[verifier::external_body]
    fn change_jump_operand_at(&mut self, idx: usize, v: u16)
        requires idx + 2 < old(self).instructions@.len(),
                 old(self).instructions@[idx as int] == opcode_byte(OpCode::Jump) || old(self).instructions@[idx as int] == opcode_byte(OpCode::JumpIfFalse)
        ensures final(self).instructions@ == old(self).instructions@.update(idx + 1, (v as int % 256) as u8).update(idx + 2, (v as int / 256) as u8),
                final(self).last_instruction == old(self).last_instruction, same_but_code(*old(self), *final(self)), final(self).height@ == old(self).height@
    { unimplemented!() }

    /// The recursive code generators as their callers see them (induction hypothesis of the structural
    /// induction over the tree; every arm that calls them is verified against exactly this contract):
    /// append-only on the code buffer, constants only grow, loop nesting depth restored, invariant kept,
    /// and the call is recorded in the ghost log.
    #[verifier::external_body]
    fn compile_expression(&mut self, expr: &Expr) -> (r: Result<(), Error>)
        requires gen_inv(*old(self))
        ensures
            r is Ok ==> final(self).log@ == old(self).log@.push(entry_e(*expr, *old(self), *final(self))),
            r is Ok ==> gen_post(*old(self), *final(self), true),
            // an expression leaves exactly ONE value (static height, see opcodes.rs)
            r is Ok ==> hstep(old(self).height@, final(self).height@, 1),
            sym_wf(final(self).symbols),   // also when the generator fails: compile_ast resets the table afterwards
            sym_globals_kept(old(self).symbols, final(self).symbols),   // ... to the names the global scope had before: they are still there, in their slots
    { unimplemented!() }
    #[verifier::external_body]
    fn compile_statement(&mut self, stmt: &Stmt) -> (r: Result<(), Error>)
        requires gen_inv(*old(self))
        ensures
            r is Ok ==> final(self).log@ == old(self).log@.push(entry_s(*stmt, *old(self), *final(self))),
            r is Ok ==> gen_post(*old(self), *final(self), true),
            // a statement leaves NOTHING behind
            r is Ok ==> hstep(old(self).height@, final(self).height@, 0),
            sym_wf(final(self).symbols),   // also when the generator fails: compile_ast resets the table afterwards
            sym_globals_kept(old(self).symbols, final(self).symbols),   // ... to the names the global scope had before: they are still there, in their slots
    { unimplemented!() }
//@ASSUMES unit=c02_blocks.rs fn=compile_block_statement full=1
//@ASSUMES unit=c02_blocks.rs fn=compile_block_value full=1
}

impl Object {
    // PROVED-BY: O15.4 c15_function_roundtrip
    #[verifier::external_body]
    pub fn function(ip: u32, num_locals: u16) -> (o: Object) ensures spec_tag(o) == Type::Function, spec_fn_ip(o) == ip, spec_fn_locals(o) == num_locals { unimplemented!() }
//@ASSUMES unit=c06_arith.rs fn=checked_int full=1
}
