// ---- prelude_object.rs: types of src/object.rs as Verus sees them (R8) ----------------------------
// `Object` is an opaque 64-bit word; its accessors are *assumed* here with the contracts that Kani proves
// on the real functions (each `external_body` below names the proving obligation).
//@TYPE file=object.rs name=Type attrs="#[derive(PartialEq, Eq, Structural)]"

pub enum Error { TypeError(String), SyntaxError(String), ReferenceError(String), IndexError(String), ArgumentError(String) }

#[verifier::external_body]
pub struct GC { _p: usize }

#[derive(Copy, Clone)]
pub struct Object(pub usize);

global size_of usize == 8;

pub const MAX_INT: isize = 0x0FFF_FFFF_FFFF_FFFF;
pub const MIN_INT: isize = -0x1000_0000_0000_0000;
/// the range of integer values (61 bits, two's complement)
pub open spec fn in_range(v: int) -> bool { MIN_INT <= v <= MAX_INT }

pub uninterp spec fn spec_tag(o: Object) -> Type;
pub uninterp spec fn spec_int(o: Object) -> int;
pub uninterp spec fn spec_bool(o: Object) -> bool;
pub uninterp spec fn spec_fn_ip(o: Object) -> u32;
pub uninterp spec fn spec_fn_locals(o: Object) -> u32;
pub uninterp spec fn spec_null() -> Object;
pub uninterp spec fn spec_mk_bool(b: bool) -> Object;

#[verifier::external_body]
pub fn fmt_opaque() -> String { String::new() }   // R1: error message text is not specified

/// R1p: panic!/unimplemented! sites become calls of this function: they must be proved unreachable
#[verifier::external_body]
pub fn vpanic() -> ! requires false { panic!() }

impl Object {
    // PROVED-BY: O15.5 c15_tag_total
    #[verifier::external_body]
    pub fn tag(self) -> (t: Type) ensures t == spec_tag(self) { unimplemented!() }
    // PROVED-BY: O15.1 c15_int_roundtrip, O15.1r c15_as_int_range (any word >> 3 is a 61-bit value)
    #[verifier::external_body]
    pub fn as_int(self) -> (v: isize) ensures v == spec_int(self), MIN_INT <= v <= MAX_INT { unimplemented!() }
    // PROVED-BY: O15.1 c15_int_roundtrip
    #[verifier::external_body]
    pub fn int(value: isize) -> (o: Object)
        requires MIN_INT <= value <= MAX_INT
        ensures spec_tag(o) == Type::Int, spec_int(o) == value
    { unimplemented!() }
    // PROVED-BY: O15.3 c15_null_bool
    #[verifier::external_body]
    pub fn null() -> (o: Object) ensures o == spec_null(), spec_tag(o) == Type::Null { unimplemented!() }
    #[verifier::external_body]
    pub fn bool(value: bool) -> (o: Object) ensures o == spec_mk_bool(value), spec_tag(o) == Type::Bool, spec_bool(o) == value { unimplemented!() }
    #[verifier::external_body]
    pub fn as_bool(self) -> (b: bool) ensures spec_tag(self) == Type::Bool ==> b == spec_bool(self) { unimplemented!() }
    // PROVED-BY: O15.4 c15_function_roundtrip
    #[verifier::external_body]
    pub fn as_function(self) -> (r: [u32; 2])
        ensures r[0] == spec_fn_ip(self), r[1] == spec_fn_locals(self), r[1] <= 0xFFFF
    { unimplemented!() }
}
