// ---- prelude_vm.rs: the machine state of src/vm.rs as Verus sees it (R8) ---------------------------
// VM and Frame have exactly the fields of the real structs (during a run the collector is the `gc` PARAMETER of
// run_code - VM::run moves it out of the `gc` field and back - so the arm units take it as a parameter as well). The five helpers whose bodies use unsafe
// unchecked access (read_u8, read_u16, next, pop) carry ASSUMED contracts here; each is PROVED on the real
// method by the Kani obligation named next to it. The remaining helpers are verified verbatim in unit c02_helpers.

//@TYPE file=vm.rs name=Frame attrs="#[derive(Copy, Clone)]"

//@TYPE file=vm.rs name=VM


/// frame conditions: what a step may NOT change
pub open spec fn same_code(a: VM, b: VM) -> bool { a.instructions == b.instructions }
pub open spec fn same_but_ip(a: VM, b: VM) -> bool {
    a.stack == b.stack && a.globals == b.globals && a.frames == b.frames && a.instructions == b.instructions && a.bp == b.bp
}
pub open spec fn same_but_stack(a: VM, b: VM) -> bool {
    a.ip == b.ip && a.globals == b.globals && a.frames == b.frames && a.instructions == b.instructions && a.bp == b.bp
}
pub open spec fn same_but_ip_stack(a: VM, b: VM) -> bool {
    a.globals == b.globals && a.frames == b.frames && a.instructions == b.instructions && a.bp == b.bp
}

/// result relation of the binary operators (uninterpreted here: C06 decides what each operator computes; the
/// machine contracts only say WHICH operator is applied to WHICH operands in WHICH order)
pub uninterp spec fn binop_rel(op: int, left: Object, right: Object, r: Result<Object, Error>) -> bool;
impl Object {
    // the operator methods as the machine sees them: total, result related to (op, left, right)
    #[verifier::external_body] pub fn add(self, rhs: Object, gc: &mut GC) -> (r: Result<Object, Error>) ensures binop_rel(op_add(), self, rhs, r), gc_same_objects(*old(gc), *final(gc), r) { unimplemented!() }
    #[verifier::external_body] pub fn sub(self, rhs: Object, gc: &mut GC) -> (r: Result<Object, Error>) ensures binop_rel(op_sub(), self, rhs, r), gc_same_objects(*old(gc), *final(gc), r) { unimplemented!() }
    #[verifier::external_body] pub fn mul(self, rhs: Object, gc: &mut GC) -> (r: Result<Object, Error>) ensures binop_rel(op_mul(), self, rhs, r), gc_same_objects(*old(gc), *final(gc), r) { unimplemented!() }
    #[verifier::external_body] pub fn div(self, rhs: Object, gc: &mut GC) -> (r: Result<Object, Error>) ensures binop_rel(op_div(), self, rhs, r), gc_same_objects(*old(gc), *final(gc), r) { unimplemented!() }
    #[verifier::external_body] pub fn rem(self, rhs: Object, gc: &mut GC) -> (r: Result<Object, Error>) ensures binop_rel(op_rem(), self, rhs, r), gc_same_objects(*old(gc), *final(gc), r) { unimplemented!() }
    #[verifier::external_body] pub fn lt(self, rhs: Object, gc: &mut GC) -> (r: Result<Object, Error>) ensures binop_rel(op_lt(), self, rhs, r), gc_same_objects(*old(gc), *final(gc), r) { unimplemented!() }
    #[verifier::external_body] pub fn lte(self, rhs: Object, gc: &mut GC) -> (r: Result<Object, Error>) ensures binop_rel(op_lte(), self, rhs, r), gc_same_objects(*old(gc), *final(gc), r) { unimplemented!() }
    #[verifier::external_body] pub fn gt(self, rhs: Object, gc: &mut GC) -> (r: Result<Object, Error>) ensures binop_rel(op_gt(), self, rhs, r), gc_same_objects(*old(gc), *final(gc), r) { unimplemented!() }
    #[verifier::external_body] pub fn gte(self, rhs: Object, gc: &mut GC) -> (r: Result<Object, Error>) ensures binop_rel(op_gte(), self, rhs, r), gc_same_objects(*old(gc), *final(gc), r) { unimplemented!() }
    #[verifier::external_body] pub fn eq(self, rhs: Object, gc: &mut GC) -> (r: Result<Object, Error>) ensures binop_rel(op_eq(), self, rhs, r), gc_same_objects(*old(gc), *final(gc), r) { unimplemented!() }
    #[verifier::external_body] pub fn neq(self, rhs: Object, gc: &mut GC) -> (r: Result<Object, Error>) ensures binop_rel(op_neq(), self, rhs, r), gc_same_objects(*old(gc), *final(gc), r) { unimplemented!() }
    #[verifier::external_body] pub fn and(self, rhs: Object, gc: &mut GC) -> (r: Result<Object, Error>) ensures binop_rel(op_and(), self, rhs, r), gc_same_objects(*old(gc), *final(gc), r) { unimplemented!() }
    #[verifier::external_body] pub fn or(self, rhs: Object, gc: &mut GC) -> (r: Result<Object, Error>) ensures binop_rel(op_or(), self, rhs, r), gc_same_objects(*old(gc), *final(gc), r) { unimplemented!() }
}

// ---- the collector as the machine sees it (ghost view: the set of managed objects and the roots of the
// last collection). PROVED-BY: the bounded collector obligations of C03/C04 on the real GC.
pub uninterp spec fn gc_managed(gc: GC) -> Set<Object>;
pub uninterp spec fn gc_last_roots(gc: GC) -> Seq<Seq<Object>>;
pub uninterp spec fn gc_runs(gc: GC) -> nat;
pub open spec fn gc_same_objects(a: GC, b: GC, r: Result<Object, Error>) -> bool {
    gc_runs(a) == gc_runs(b) && gc_last_roots(a) == gc_last_roots(b)
}
pub open spec fn roots_view(roots: Seq<&[Object]>) -> Seq<Seq<Object>> { Seq::new(roots.len(), |i: int| roots[i]@) }
impl GC {
    #[verifier::external_body]
    pub fn run(&mut self, roots: &[&[Object]])
        ensures gc_runs(*final(self)) == gc_runs(*old(self)) + 1, gc_last_roots(*final(self)) == roots_view(roots@)
    { unimplemented!() }
    #[verifier::external_body]
    pub fn untrace(&mut self, o: Object)
        ensures !gc_managed(*final(self)).contains(o), gc_runs(*final(self)) == gc_runs(*old(self))
    { unimplemented!() }
}

impl VM {
    // PROVED-BY: O02.h1 c02_read_u8 (Kani, real VM::read_u8)
    #[verifier::external_body]
    fn read_u8(&mut self) -> (v: u8)
        requires old(self).ip < old(self).instructions@.len()
        ensures v == old(self).instructions@[old(self).ip as int], final(self).ip == old(self).ip + 1, same_but_ip(*old(self), *final(self))
    { unimplemented!() }
    // PROVED-BY: O02.h2 c02_read_u16 (Kani, real VM::read_u16)
    #[verifier::external_body]
    fn read_u16(&mut self) -> (v: u16)
        requires old(self).ip + 2 <= old(self).instructions@.len()
        ensures v as int == u16_at(old(self).instructions@, old(self).ip as int), final(self).ip == old(self).ip + 2, same_but_ip(*old(self), *final(self))
    { unimplemented!() }
    // PROVED-BY: O02.h3 c02_pop (Kani, real VM::pop)
    #[verifier::external_body]
    fn pop(&mut self) -> (o: Object)
        requires old(self).stack@.len() > 0
        ensures o == old(self).stack@.last(), final(self).stack@ == old(self).stack@.drop_last(), same_but_stack(*old(self), *final(self))
    { unimplemented!() }
}

// R11: std::mem::take on a Vec (no vstd specification): returns the old value and leaves an empty Vec behind
#[verifier::external_body]
pub fn mem_take_vec<T>(v: &mut Vec<T>) -> (r: Vec<T>) ensures r@ == old(v)@, final(v)@.len() == 0 { std::mem::take(v) }
