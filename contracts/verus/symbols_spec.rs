// ---- symbols_spec.rs: the symbol table of src/symbols.rs as every unit sees it --------------------------------
// The REAL type definitions (rule R9) and the specification vocabulary over them. Unit c09_names verifies the table
// functions against contracts written in this vocabulary; the compiler units take exactly those contracts
// (//@ASSUMES full=1 in prelude_compiler.rs), so there is ONE statement of what the table does.
//@TYPE file=symbols.rs name=Scope attrs="#[derive(PartialEq, Eq, Structural, Copy, Clone)]"
//@TYPE file=symbols.rs name=Symbol

/// One context (global, or one function being compiled): the REAL struct. Its VIEW is the stack of open block
/// scopes, each the list of names declared in it, in declaration order.
//@TYPE file=symbols.rs name=Context
pub type Scopes = Seq<Seq<Seq<char>>>;
pub open spec fn ctx_view(c: Context) -> Scopes {
    Seq::new(c.symbols@.len(), |i: int| Seq::new(c.symbols@[i]@.len(), |j: int| c.symbols@[i]@[j]@))
}
/// number of names in all open scopes (what Context::total_len computes)
pub open spec fn flat_len(v: Scopes) -> nat decreases v.len() {
    if v.len() == 0 { 0 } else if v.len() == 1 { v[0].len() } else { flat_len(v.drop_last()) + v.last().len() }
}
/// position of the LAST declaration of `name` in one scope (what rposition answers)
pub open spec fn last_pos(s: Seq<Seq<char>>, name: Seq<char>) -> Option<int> decreases s.len() {
    if s.len() == 0 { None } else if s.last() == name { Some(s.len() - 1) } else { last_pos(s.drop_last(), name) }
}
/// the slot a name means: innermost scope that declares it, last declaration there, counted across the open scopes
pub open spec fn slot_of(v: Scopes, name: Seq<char>) -> Option<int> decreases v.len() {
    if v.len() == 0 { None } else {
        match last_pos(v.last(), name) {
            Some(j) => Some(flat_len(v.drop_last()) + j),
            None => slot_of(v.drop_last(), name),
        }
    }
}
pub open spec fn declare(v: Scopes, name: Seq<char>) -> Scopes { v.drop_last().push(v.last().push(name)) }

pub open spec fn ctx_resolve(c: Context, name: Seq<char>) -> Option<Symbol> {
    match slot_of(ctx_view(c), name) { Some(i) => Some(Symbol { index: i as u16, scope: c.scope }), None => None }
}
pub open spec fn ctx_after_define(c: Context, name: Seq<char>, post: Context) -> bool {
    ctx_view(post) == declare(ctx_view(c), name) && post.scope == c.scope && post.max_size == c.max_size + 1
}
pub open spec fn ctx_define_symbol(c: Context, name: Seq<char>) -> Symbol { Symbol { index: flat_len(ctx_view(c)) as u16, scope: c.scope } }
pub open spec fn ctx_max_size(c: Context) -> usize { c.max_size }
pub open spec fn ctx_is_new(c: Context, scope: Scope) -> bool { c.scope == scope && c.max_size == 0 && ctx_view(c).len() == 1 && ctx_view(c)[0].len() == 0 && flat_len(ctx_view(c)) == 0 }

//@TYPE file=symbols.rs name=SymbolTable

// ---- table level: the measures the code generator's contracts speak about -----------------------------------
/// the table is usable: there is a current context and every context has an open scope (what the unwrap()s of
/// current_context / Context::define / leave_scope rely on)
pub open spec fn sym_wf(t: SymbolTable) -> bool {
    t.contexts@.len() >= 1 && t.contexts@[0].scope == Scope::Global
        && forall|i: int| 0 <= i < t.contexts@.len() ==> ctx_view(#[trigger] t.contexts@[i]).len() >= 1 && ctx_sized(t.contexts@[i])
}
/// the size a context reports (the number of slots a call reserves for a function) covers every slot in use, and
/// slots fit their 16-bit operands
pub open spec fn ctx_sized(c: Context) -> bool { flat_len(ctx_view(c)) <= c.max_size && flat_len(ctx_view(c)) <= 0x1_0000 }
/// number of contexts (global + one per function being compiled)
pub open spec fn sym_contexts(t: SymbolTable) -> int { t.contexts@.len() as int }
/// number of open block scopes of the current context
pub open spec fn sym_depth(t: SymbolTable) -> int { ctx_view(t.contexts@.last()).len() as int }
/// the same for the ENCLOSING contexts, outermost first: what leave_context returns to
pub open spec fn sym_outer(t: SymbolTable) -> Seq<int> {
    Seq::new((t.contexts@.len() - 1) as nat, |i: int| ctx_view(t.contexts@[i]).len() as int)
}
/// the sizes the ENCLOSING contexts report, outermost first (untouched while an inner function is compiled)
pub open spec fn sym_outer_sizes(t: SymbolTable) -> Seq<int> {
    Seq::new((t.contexts@.len() - 1) as nat, |i: int| t.contexts@[i].max_size as int)
}
pub open spec fn sym_in_function(t: SymbolTable) -> bool { t.contexts@.len() > 1 }
/// what a name means: the current context first, then - only inside a function - the GLOBAL context (index 0);
/// never the context of an enclosing function
pub open spec fn sym_resolve(t: SymbolTable, name: Seq<char>) -> Option<Symbol> {
    let cur = ctx_resolve(t.contexts@.last(), name);
    if cur is Some { cur } else if t.contexts@.len() > 1 { ctx_resolve(t.contexts@[0], name) } else { None }
}
/// the slot the next declaration gets
pub open spec fn sym_define_symbol(t: SymbolTable, name: Seq<char>) -> Symbol { ctx_define_symbol(t.contexts@.last(), name) }
/// the names of the innermost scope of the current context, in declaration order
pub open spec fn sym_params(t: SymbolTable) -> Seq<Seq<char>> { ctx_view(t.contexts@.last()).last() }
pub open spec fn sym_max_size(t: SymbolTable) -> usize { ctx_max_size(t.contexts@.last()) }
/// the names of the outermost scope of the GLOBAL context, in declaration order (slot i holds name i)
pub open spec fn sym_global_names(t: SymbolTable) -> Seq<Seq<char>> { ctx_view(t.contexts@[0])[0] }
/// the outermost global scope is only ever appended to: its first names keep their slots
pub open spec fn sym_globals_kept(a: SymbolTable, b: SymbolTable) -> bool {
    sym_global_names(a).len() <= sym_global_names(b).len()
        && forall|i: int| 0 <= i < sym_global_names(a).len() ==> #[trigger] sym_global_names(b)[i] == sym_global_names(a)[i]
}
/// the name is found in the CURRENT context (then its slot lies below the size that context reports: O02.slot)
pub open spec fn sym_in_current(t: SymbolTable, name: Seq<char>) -> bool { ctx_resolve(t.contexts@.last(), name) is Some }
/// number of names declared (in all open scopes) in the current context; the scope its symbols get
pub open spec fn sym_count(t: SymbolTable) -> int { flat_len(ctx_view(t.contexts@.last())) as int }
pub open spec fn sym_cur_scope(t: SymbolTable) -> Scope { t.contexts@.last().scope }
/// every context but the current one is untouched
pub open spec fn sym_others_same(a: SymbolTable, b: SymbolTable) -> bool {
    b.contexts@.len() == a.contexts@.len() && b.contexts@.drop_last() =~= a.contexts@.drop_last()
}
/// two tables hold the same contexts (all the vocabulary above depends on the table only through this)
pub open spec fn sym_same(a: SymbolTable, b: SymbolTable) -> bool { a.contexts@ == b.contexts@ }

// ---- lemmas over the view functions that more than one unit uses ---------------------------------------------
pub proof fn lemma_last_pos_range(s: Seq<Seq<char>>, name: Seq<char>)
    ensures last_pos(s, name) matches Some(j) ==> 0 <= j < s.len() && s[j] == name && forall|k: int| j < k < s.len() ==> s[k] != name,
            last_pos(s, name) is None ==> forall|k: int| 0 <= k < s.len() ==> s[k] != name,
    decreases s.len()
{
    if s.len() > 0 {
        let t = s.drop_last();
        lemma_last_pos_range(t, name);
        assert forall|k: int| 0 <= k < t.len() implies t[k] == s[k] by {}
        if s.last() != name {
            if last_pos(t, name) is Some {
                let j = last_pos(t, name)->Some_0;
                assert forall|k: int| j < k < s.len() implies s[k] != name by { if k < t.len() { assert(t[k] != name); } }
            } else {
                assert forall|k: int| 0 <= k < s.len() implies s[k] != name by { if k < t.len() { assert(t[k] != name); } }
            }
        }
    }
}
/// O09.L2  a later declaration of the same name in the same block takes over: right after declaring `name` it
/// means the NEW slot (the number of names declared before it in the context)
pub proof fn lemma_declare_takes_over(v: Scopes, name: Seq<char>)
    requires v.len() >= 1
    ensures slot_of(declare(v, name), name) == Some(flat_len(v) as int), flat_len(declare(v, name)) == flat_len(v) + 1
{
    let w = declare(v, name);
    assert(w.drop_last() =~= v.drop_last());
    assert(w.last() == v.last().push(name));
    assert(v.last().push(name).last() == name);
}

/// O12.rec  a named function defined at top level can call itself: once `name` has been declared in the global
/// context and a fresh function context has been opened, `name` resolves - through the global fallback - to exactly
/// the symbol the declaration returned
pub proof fn lemma_function_sees_itself(t0: SymbolTable, t1: SymbolTable, t2: SymbolTable, name: Seq<char>)
    requires
        sym_wf(t0), t0.contexts@.len() == 1,
        // t1: after define(name) in t0
        sym_others_same(t0, t1), ctx_after_define(t0.contexts@.last(), name, t1.contexts@.last()),
        // t2: after new_context in t1
        t2.contexts@.len() == t1.contexts@.len() + 1, t2.contexts@.drop_last() =~= t1.contexts@, ctx_is_new(t2.contexts@.last(), Scope::Local),
    ensures sym_resolve(t2, name) == Some(sym_define_symbol(t0, name))
{
    let v0 = ctx_view(t0.contexts@.last());
    let fresh = ctx_view(t2.contexts@.last());
    assert(fresh.len() == 1 && fresh[0].len() == 0);
    assert(fresh.last().len() == 0);
    assert(last_pos(fresh.last(), name) is None);
    assert(fresh.drop_last().len() == 0);
    assert(slot_of(fresh.drop_last(), name) is None);
    assert(slot_of(fresh, name) is None);
    assert(ctx_resolve(t2.contexts@.last(), name) is None);
    assert(t2.contexts@[0] == t1.contexts@[0]) by { assert(t2.contexts@.drop_last()[0] == t1.contexts@[0]); }
    assert(t1.contexts@[0] == t1.contexts@.last());
    lemma_declare_takes_over(v0, name);
    assert(ctx_view(t1.contexts@[0]) == declare(v0, name));
}

/// a slot is always one of the context's slots
pub proof fn lemma_slot_in_range(v: Scopes, name: Seq<char>)
    ensures slot_of(v, name) matches Some(i) ==> 0 <= i < flat_len(v)
    decreases v.len()
{
    if v.len() > 0 {
        lemma_last_pos_range(v.last(), name);
        lemma_slot_in_range(v.drop_last(), name);
    }
}
/// flat_len of the three shapes the table functions produce
pub proof fn lemma_flat_len_push_empty(v: Scopes)
    ensures flat_len(v.push(Seq::<Seq<char>>::empty())) == flat_len(v)
{
    assert(v.push(Seq::<Seq<char>>::empty()).drop_last() =~= v);
}
pub proof fn lemma_flat_len_drop_last(v: Scopes)
    requires v.len() >= 1
    ensures flat_len(v.drop_last()) <= flat_len(v)
{}
pub proof fn lemma_flat_len_take1(v: Scopes)
    requires v.len() >= 1
    ensures flat_len(v.take(1)) <= flat_len(v)
    decreases v.len()
{
    if v.len() == 1 { assert(v.take(1) =~= v); }
    else {
        lemma_flat_len_take1(v.drop_last());
        assert(v.drop_last().take(1) =~= v.take(1));
    }
}
/// O02.slot  a name found in the CURRENT context has a slot below the size that context reports
pub proof fn lemma_current_slot_in_range(t: SymbolTable, name: Seq<char>)
    requires sym_wf(t)
    ensures ctx_resolve(t.contexts@.last(), name) matches Some(s) ==> (s.index as int) < sym_max_size(t)
{
    lemma_slot_in_range(ctx_view(t.contexts@.last()), name);
}

/// the first scope's names are among the context's names
pub proof fn lemma_flat_len_first(v: Scopes)
    requires v.len() >= 1
    ensures v[0].len() <= flat_len(v)
    decreases v.len()
{
    if v.len() > 1 { lemma_flat_len_first(v.drop_last()); assert(v.drop_last()[0] == v[0]); }
}
/// DERIVED clause of Context::define: a declaration keeps the context's size invariant
pub proof fn lemma_define_keeps_size(c: Context, post: Context, name: Seq<char>)
    requires ctx_view(c).len() >= 1, ctx_after_define(c, name, post), flat_len(ctx_view(c)) <= 0xFFFF, ctx_sized(c)
    ensures ctx_sized(post), ctx_view(post).len() == ctx_view(c).len()
{
    lemma_declare_takes_over(ctx_view(c), name);
}

/// O02.slot  a name that resolves to a LOCAL symbol was found in the current context (the only fallback is the global
/// context, whose symbols are global), so its slot lies below the size the current context reports
pub proof fn lemma_local_symbol_is_current(t: SymbolTable, name: Seq<char>)
    requires sym_wf(t)
    ensures sym_resolve(t, name) matches Some(s) ==> (s.scope == Scope::Local ==> sym_in_current(t, name) && (s.index as int) < sym_max_size(t))
{
    lemma_current_slot_in_range(t, name);
}
