// Unit c02_arms: every remaining arm of the dispatch loop of VM::run (src/vm.rs), sliced verbatim (R7), one
// function per arm. Contract shape per arm: requires = operand bytes inside the code + operands on the stack
// (+ index operands in range); ensures = new ip, new stack as a function of the WHOLE old stack (everything
// below the operands unchanged), nothing else touched. Written by hand (generated once from a table for the 24
// operator arms, which share two shapes).
use vstd::prelude::*;
verus! {
//@INCLUDE prelude_object.rs
//@INCLUDE opcodes.rs
//@INCLUDE prelude_vm.rs
//@INCLUDE vm_helpers_assumed.rs
//@INCLUDE vm_callees_assumed.rs

/// generic binary operator arm: operands are the two topmost stack slots, LEFT BELOW RIGHT
pub open spec fn binop_step(pre: VM, post: VM, r: Result<(), Error>, op: int) -> bool {
    let right = pre.stack@.last();
    let left = pre.stack@.drop_last().last();
    exists|res: Result<Object, Error>| #[trigger] binop_rel(op, left, right, res) && match res {
        Ok(v) => r is Ok && post.stack@ =~= pre.stack@.drop_last().drop_last().push(v) && same_but_stack(pre, post),
        Err(_) => r is Err,
    }
}
/// fused arm: LEFT is the local slot named by the first operand, RIGHT is the constant named by the second
pub open spec fn fused_step(pre: VM, post: VM, constants: Seq<Object>, r: Result<(), Error>, op: int) -> bool {
    let li = pre.bp as int + u16_at(pre.instructions@, pre.ip as int);
    let ci = u16_at(pre.instructions@, pre.ip as int + 2);
    exists|res: Result<Object, Error>| #[trigger] binop_rel(op, pre.stack@[li], constants[ci], res) && match res {
        Ok(v) => r is Ok && post.stack@ =~= pre.stack@.push(v) && post.ip == pre.ip + 4 && same_but_ip_stack(pre, post),
        Err(_) => r is Err,
    }
}

impl VM {

    fn arm_add(&mut self, gc: &mut GC) -> (r: Result<(), Error>)
        requires old(self).stack@.len() >= 2
        ensures
            // static stack effect (table op_delta, opcodes.rs): what the code generator's height typing assumes of this opcode
            r is Ok ==> final(self).stack@.len() == old(self).stack@.len() + op_delta(OpCode::Add),
            //@VACUITY
            binop_step(*old(self), *final(self), r, generic_sem(OpCode::Add)),
    {
//@ARM file=vm.rs fn=run_code impl=VM arm="OpCode::Add" rules="R1;R4"
        Ok(())
    }

    fn arm_subtract(&mut self, gc: &mut GC) -> (r: Result<(), Error>)
        requires old(self).stack@.len() >= 2
        ensures
            // static stack effect (table op_delta, opcodes.rs): what the code generator's height typing assumes of this opcode
            r is Ok ==> final(self).stack@.len() == old(self).stack@.len() + op_delta(OpCode::Subtract),
            //@VACUITY
            binop_step(*old(self), *final(self), r, generic_sem(OpCode::Subtract)),
    {
//@ARM file=vm.rs fn=run_code impl=VM arm="OpCode::Subtract" rules="R1;R4"
        Ok(())
    }

    fn arm_divide(&mut self, gc: &mut GC) -> (r: Result<(), Error>)
        requires old(self).stack@.len() >= 2
        ensures
            // static stack effect (table op_delta, opcodes.rs): what the code generator's height typing assumes of this opcode
            r is Ok ==> final(self).stack@.len() == old(self).stack@.len() + op_delta(OpCode::Divide),
            //@VACUITY
            binop_step(*old(self), *final(self), r, generic_sem(OpCode::Divide)),
    {
//@ARM file=vm.rs fn=run_code impl=VM arm="OpCode::Divide" rules="R1;R4"
        Ok(())
    }

    fn arm_multiply(&mut self, gc: &mut GC) -> (r: Result<(), Error>)
        requires old(self).stack@.len() >= 2
        ensures
            // static stack effect (table op_delta, opcodes.rs): what the code generator's height typing assumes of this opcode
            r is Ok ==> final(self).stack@.len() == old(self).stack@.len() + op_delta(OpCode::Multiply),
            //@VACUITY
            binop_step(*old(self), *final(self), r, generic_sem(OpCode::Multiply)),
    {
//@ARM file=vm.rs fn=run_code impl=VM arm="OpCode::Multiply" rules="R1;R4"
        Ok(())
    }

    fn arm_gt(&mut self, gc: &mut GC) -> (r: Result<(), Error>)
        requires old(self).stack@.len() >= 2
        ensures
            // static stack effect (table op_delta, opcodes.rs): what the code generator's height typing assumes of this opcode
            r is Ok ==> final(self).stack@.len() == old(self).stack@.len() + op_delta(OpCode::Gt),
            //@VACUITY
            binop_step(*old(self), *final(self), r, generic_sem(OpCode::Gt)),
    {
//@ARM file=vm.rs fn=run_code impl=VM arm="OpCode::Gt" rules="R1;R4"
        Ok(())
    }

    fn arm_gte(&mut self, gc: &mut GC) -> (r: Result<(), Error>)
        requires old(self).stack@.len() >= 2
        ensures
            // static stack effect (table op_delta, opcodes.rs): what the code generator's height typing assumes of this opcode
            r is Ok ==> final(self).stack@.len() == old(self).stack@.len() + op_delta(OpCode::Gte),
            //@VACUITY
            binop_step(*old(self), *final(self), r, generic_sem(OpCode::Gte)),
    {
//@ARM file=vm.rs fn=run_code impl=VM arm="OpCode::Gte" rules="R1;R4"
        Ok(())
    }

    fn arm_lt(&mut self, gc: &mut GC) -> (r: Result<(), Error>)
        requires old(self).stack@.len() >= 2
        ensures
            // static stack effect (table op_delta, opcodes.rs): what the code generator's height typing assumes of this opcode
            r is Ok ==> final(self).stack@.len() == old(self).stack@.len() + op_delta(OpCode::Lt),
            //@VACUITY
            binop_step(*old(self), *final(self), r, generic_sem(OpCode::Lt)),
    {
//@ARM file=vm.rs fn=run_code impl=VM arm="OpCode::Lt" rules="R1;R4"
        Ok(())
    }

    fn arm_lte(&mut self, gc: &mut GC) -> (r: Result<(), Error>)
        requires old(self).stack@.len() >= 2
        ensures
            // static stack effect (table op_delta, opcodes.rs): what the code generator's height typing assumes of this opcode
            r is Ok ==> final(self).stack@.len() == old(self).stack@.len() + op_delta(OpCode::Lte),
            //@VACUITY
            binop_step(*old(self), *final(self), r, generic_sem(OpCode::Lte)),
    {
//@ARM file=vm.rs fn=run_code impl=VM arm="OpCode::Lte" rules="R1;R4"
        Ok(())
    }

    fn arm_eq(&mut self, gc: &mut GC) -> (r: Result<(), Error>)
        requires old(self).stack@.len() >= 2
        ensures
            // static stack effect (table op_delta, opcodes.rs): what the code generator's height typing assumes of this opcode
            r is Ok ==> final(self).stack@.len() == old(self).stack@.len() + op_delta(OpCode::Eq),
            //@VACUITY
            binop_step(*old(self), *final(self), r, generic_sem(OpCode::Eq)),
    {
//@ARM file=vm.rs fn=run_code impl=VM arm="OpCode::Eq" rules="R1;R4"
        Ok(())
    }

    fn arm_neq(&mut self, gc: &mut GC) -> (r: Result<(), Error>)
        requires old(self).stack@.len() >= 2
        ensures
            // static stack effect (table op_delta, opcodes.rs): what the code generator's height typing assumes of this opcode
            r is Ok ==> final(self).stack@.len() == old(self).stack@.len() + op_delta(OpCode::Neq),
            //@VACUITY
            binop_step(*old(self), *final(self), r, generic_sem(OpCode::Neq)),
    {
//@ARM file=vm.rs fn=run_code impl=VM arm="OpCode::Neq" rules="R1;R4"
        Ok(())
    }

    fn arm_modulo(&mut self, gc: &mut GC) -> (r: Result<(), Error>)
        requires old(self).stack@.len() >= 2
        ensures
            // static stack effect (table op_delta, opcodes.rs): what the code generator's height typing assumes of this opcode
            r is Ok ==> final(self).stack@.len() == old(self).stack@.len() + op_delta(OpCode::Modulo),
            //@VACUITY
            binop_step(*old(self), *final(self), r, generic_sem(OpCode::Modulo)),
    {
//@ARM file=vm.rs fn=run_code impl=VM arm="OpCode::Modulo" rules="R1;R4"
        Ok(())
    }

    fn arm_and(&mut self, gc: &mut GC) -> (r: Result<(), Error>)
        requires old(self).stack@.len() >= 2
        ensures
            // static stack effect (table op_delta, opcodes.rs): what the code generator's height typing assumes of this opcode
            r is Ok ==> final(self).stack@.len() == old(self).stack@.len() + op_delta(OpCode::And),
            //@VACUITY
            binop_step(*old(self), *final(self), r, generic_sem(OpCode::And)),
    {
//@ARM file=vm.rs fn=run_code impl=VM arm="OpCode::And" rules="R1;R4"
        Ok(())
    }

    fn arm_or(&mut self, gc: &mut GC) -> (r: Result<(), Error>)
        requires old(self).stack@.len() >= 2
        ensures
            // static stack effect (table op_delta, opcodes.rs): what the code generator's height typing assumes of this opcode
            r is Ok ==> final(self).stack@.len() == old(self).stack@.len() + op_delta(OpCode::Or),
            //@VACUITY
            binop_step(*old(self), *final(self), r, generic_sem(OpCode::Or)),
    {
//@ARM file=vm.rs fn=run_code impl=VM arm="OpCode::Or" rules="R1;R4"
        Ok(())
    }

    fn arm_gtlocalconst(&mut self, constants: &Vec<Object>, gc: &mut GC) -> (r: Result<(), Error>)
        requires
            old(self).ip + 4 <= old(self).instructions@.len(),
            (old(self).bp as int) + u16_at(old(self).instructions@, old(self).ip as int) < old(self).stack@.len(),
            u16_at(old(self).instructions@, old(self).ip as int + 2) < constants@.len(),
        ensures
            // static stack effect (table op_delta, opcodes.rs): what the code generator's height typing assumes of this opcode
            r is Ok ==> final(self).stack@.len() == old(self).stack@.len() + op_delta(OpCode::GtLocalConst),
            //@VACUITY
            fused_step(*old(self), *final(self), constants@, r, fused_sem(OpCode::GtLocalConst)),
    {
//@ARM file=vm.rs fn=run_code impl=VM arm="OpCode::GtLocalConst" rules="R1;R4"
        Ok(())
    }

    fn arm_gtelocalconst(&mut self, constants: &Vec<Object>, gc: &mut GC) -> (r: Result<(), Error>)
        requires
            old(self).ip + 4 <= old(self).instructions@.len(),
            (old(self).bp as int) + u16_at(old(self).instructions@, old(self).ip as int) < old(self).stack@.len(),
            u16_at(old(self).instructions@, old(self).ip as int + 2) < constants@.len(),
        ensures
            // static stack effect (table op_delta, opcodes.rs): what the code generator's height typing assumes of this opcode
            r is Ok ==> final(self).stack@.len() == old(self).stack@.len() + op_delta(OpCode::GteLocalConst),
            //@VACUITY
            fused_step(*old(self), *final(self), constants@, r, fused_sem(OpCode::GteLocalConst)),
    {
//@ARM file=vm.rs fn=run_code impl=VM arm="OpCode::GteLocalConst" rules="R1;R4"
        Ok(())
    }

    fn arm_ltlocalconst(&mut self, constants: &Vec<Object>, gc: &mut GC) -> (r: Result<(), Error>)
        requires
            old(self).ip + 4 <= old(self).instructions@.len(),
            (old(self).bp as int) + u16_at(old(self).instructions@, old(self).ip as int) < old(self).stack@.len(),
            u16_at(old(self).instructions@, old(self).ip as int + 2) < constants@.len(),
        ensures
            // static stack effect (table op_delta, opcodes.rs): what the code generator's height typing assumes of this opcode
            r is Ok ==> final(self).stack@.len() == old(self).stack@.len() + op_delta(OpCode::LtLocalConst),
            //@VACUITY
            fused_step(*old(self), *final(self), constants@, r, fused_sem(OpCode::LtLocalConst)),
    {
//@ARM file=vm.rs fn=run_code impl=VM arm="OpCode::LtLocalConst" rules="R1;R4"
        Ok(())
    }

    fn arm_ltelocalconst(&mut self, constants: &Vec<Object>, gc: &mut GC) -> (r: Result<(), Error>)
        requires
            old(self).ip + 4 <= old(self).instructions@.len(),
            (old(self).bp as int) + u16_at(old(self).instructions@, old(self).ip as int) < old(self).stack@.len(),
            u16_at(old(self).instructions@, old(self).ip as int + 2) < constants@.len(),
        ensures
            // static stack effect (table op_delta, opcodes.rs): what the code generator's height typing assumes of this opcode
            r is Ok ==> final(self).stack@.len() == old(self).stack@.len() + op_delta(OpCode::LteLocalConst),
            //@VACUITY
            fused_step(*old(self), *final(self), constants@, r, fused_sem(OpCode::LteLocalConst)),
    {
//@ARM file=vm.rs fn=run_code impl=VM arm="OpCode::LteLocalConst" rules="R1;R4"
        Ok(())
    }

    fn arm_eqlocalconst(&mut self, constants: &Vec<Object>, gc: &mut GC) -> (r: Result<(), Error>)
        requires
            old(self).ip + 4 <= old(self).instructions@.len(),
            (old(self).bp as int) + u16_at(old(self).instructions@, old(self).ip as int) < old(self).stack@.len(),
            u16_at(old(self).instructions@, old(self).ip as int + 2) < constants@.len(),
        ensures
            // static stack effect (table op_delta, opcodes.rs): what the code generator's height typing assumes of this opcode
            r is Ok ==> final(self).stack@.len() == old(self).stack@.len() + op_delta(OpCode::EqLocalConst),
            //@VACUITY
            fused_step(*old(self), *final(self), constants@, r, fused_sem(OpCode::EqLocalConst)),
    {
//@ARM file=vm.rs fn=run_code impl=VM arm="OpCode::EqLocalConst" rules="R1;R4"
        Ok(())
    }

    fn arm_neqlocalconst(&mut self, constants: &Vec<Object>, gc: &mut GC) -> (r: Result<(), Error>)
        requires
            old(self).ip + 4 <= old(self).instructions@.len(),
            (old(self).bp as int) + u16_at(old(self).instructions@, old(self).ip as int) < old(self).stack@.len(),
            u16_at(old(self).instructions@, old(self).ip as int + 2) < constants@.len(),
        ensures
            // static stack effect (table op_delta, opcodes.rs): what the code generator's height typing assumes of this opcode
            r is Ok ==> final(self).stack@.len() == old(self).stack@.len() + op_delta(OpCode::NeqLocalConst),
            //@VACUITY
            fused_step(*old(self), *final(self), constants@, r, fused_sem(OpCode::NeqLocalConst)),
    {
//@ARM file=vm.rs fn=run_code impl=VM arm="OpCode::NeqLocalConst" rules="R1;R4"
        Ok(())
    }

    fn arm_addlocalconst(&mut self, constants: &Vec<Object>, gc: &mut GC) -> (r: Result<(), Error>)
        requires
            old(self).ip + 4 <= old(self).instructions@.len(),
            (old(self).bp as int) + u16_at(old(self).instructions@, old(self).ip as int) < old(self).stack@.len(),
            u16_at(old(self).instructions@, old(self).ip as int + 2) < constants@.len(),
        ensures
            // static stack effect (table op_delta, opcodes.rs): what the code generator's height typing assumes of this opcode
            r is Ok ==> final(self).stack@.len() == old(self).stack@.len() + op_delta(OpCode::AddLocalConst),
            //@VACUITY
            fused_step(*old(self), *final(self), constants@, r, fused_sem(OpCode::AddLocalConst)),
    {
//@ARM file=vm.rs fn=run_code impl=VM arm="OpCode::AddLocalConst" rules="R1;R4"
        Ok(())
    }

    fn arm_subtractlocalconst(&mut self, constants: &Vec<Object>, gc: &mut GC) -> (r: Result<(), Error>)
        requires
            old(self).ip + 4 <= old(self).instructions@.len(),
            (old(self).bp as int) + u16_at(old(self).instructions@, old(self).ip as int) < old(self).stack@.len(),
            u16_at(old(self).instructions@, old(self).ip as int + 2) < constants@.len(),
        ensures
            // static stack effect (table op_delta, opcodes.rs): what the code generator's height typing assumes of this opcode
            r is Ok ==> final(self).stack@.len() == old(self).stack@.len() + op_delta(OpCode::SubtractLocalConst),
            //@VACUITY
            fused_step(*old(self), *final(self), constants@, r, fused_sem(OpCode::SubtractLocalConst)),
    {
//@ARM file=vm.rs fn=run_code impl=VM arm="OpCode::SubtractLocalConst" rules="R1;R4"
        Ok(())
    }

    fn arm_multiplylocalconst(&mut self, constants: &Vec<Object>, gc: &mut GC) -> (r: Result<(), Error>)
        requires
            old(self).ip + 4 <= old(self).instructions@.len(),
            (old(self).bp as int) + u16_at(old(self).instructions@, old(self).ip as int) < old(self).stack@.len(),
            u16_at(old(self).instructions@, old(self).ip as int + 2) < constants@.len(),
        ensures
            // static stack effect (table op_delta, opcodes.rs): what the code generator's height typing assumes of this opcode
            r is Ok ==> final(self).stack@.len() == old(self).stack@.len() + op_delta(OpCode::MultiplyLocalConst),
            //@VACUITY
            fused_step(*old(self), *final(self), constants@, r, fused_sem(OpCode::MultiplyLocalConst)),
    {
//@ARM file=vm.rs fn=run_code impl=VM arm="OpCode::MultiplyLocalConst" rules="R1;R4"
        Ok(())
    }

    fn arm_dividelocalconst(&mut self, constants: &Vec<Object>, gc: &mut GC) -> (r: Result<(), Error>)
        requires
            old(self).ip + 4 <= old(self).instructions@.len(),
            (old(self).bp as int) + u16_at(old(self).instructions@, old(self).ip as int) < old(self).stack@.len(),
            u16_at(old(self).instructions@, old(self).ip as int + 2) < constants@.len(),
        ensures
            // static stack effect (table op_delta, opcodes.rs): what the code generator's height typing assumes of this opcode
            r is Ok ==> final(self).stack@.len() == old(self).stack@.len() + op_delta(OpCode::DivideLocalConst),
            //@VACUITY
            fused_step(*old(self), *final(self), constants@, r, fused_sem(OpCode::DivideLocalConst)),
    {
//@ARM file=vm.rs fn=run_code impl=VM arm="OpCode::DivideLocalConst" rules="R1;R4"
        Ok(())
    }

    fn arm_modulolocalconst(&mut self, constants: &Vec<Object>, gc: &mut GC) -> (r: Result<(), Error>)
        requires
            old(self).ip + 4 <= old(self).instructions@.len(),
            (old(self).bp as int) + u16_at(old(self).instructions@, old(self).ip as int) < old(self).stack@.len(),
            u16_at(old(self).instructions@, old(self).ip as int + 2) < constants@.len(),
        ensures
            // static stack effect (table op_delta, opcodes.rs): what the code generator's height typing assumes of this opcode
            r is Ok ==> final(self).stack@.len() == old(self).stack@.len() + op_delta(OpCode::ModuloLocalConst),
            //@VACUITY
            fused_step(*old(self), *final(self), constants@, r, fused_sem(OpCode::ModuloLocalConst)),
    {
//@ARM file=vm.rs fn=run_code impl=VM arm="OpCode::ModuloLocalConst" rules="R1;R4"
        Ok(())
    }

    fn arm_const(&mut self, constants: &Vec<Object>) -> (r: Result<(), Error>)
        requires old(self).ip + 2 <= old(self).instructions@.len(), u16_at(old(self).instructions@, old(self).ip as int) < constants@.len()
        ensures
            // static stack effect (table op_delta, opcodes.rs): what the code generator's height typing assumes of this opcode
            r is Ok ==> final(self).stack@.len() == old(self).stack@.len() + op_delta(OpCode::Const),
            //@VACUITY
            r is Ok, final(self).stack@ == old(self).stack@.push(constants@[u16_at(old(self).instructions@, old(self).ip as int)]),
            final(self).ip == old(self).ip + 2, same_but_ip_stack(*old(self), *final(self)),
    {
//@ARM file=vm.rs fn=run_code impl=VM arm="OpCode::Const" rules="R1;R4"
        Ok(())
    }

    /// SetGlobal: the globals vector is extended with null up to the addressed slot, then the slot is written;
    /// every other global keeps its value.
    fn arm_setglobal(&mut self) -> (r: Result<(), Error>)
        requires old(self).ip + 2 <= old(self).instructions@.len(), old(self).stack@.len() >= 1
        ensures
            // static stack effect (table op_delta, opcodes.rs): what the code generator's height typing assumes of this opcode
            r is Ok ==> final(self).stack@.len() == old(self).stack@.len() + op_delta(OpCode::SetGlobal),
            //@VACUITY
            r is Ok,
            ({
                let idx = u16_at(old(self).instructions@, old(self).ip as int);
                let g0 = old(self).globals@;
                &&& final(self).globals@.len() == (if g0.len() > idx { g0.len() as int } else { idx + 1 })
                &&& final(self).globals@[idx] == old(self).stack@.last()
                &&& (forall|i: int| 0 <= i < g0.len() && i != idx ==> final(self).globals@[i] == g0[i])
                &&& (forall|i: int| g0.len() <= i < final(self).globals@.len() && i != idx ==> final(self).globals@[i] == spec_null())
            }),
            final(self).stack@ == old(self).stack@.drop_last(), final(self).ip == old(self).ip + 2,
            final(self).frames == old(self).frames, final(self).instructions == old(self).instructions, final(self).bp == old(self).bp,
    {
//@LOOP 1 invariant self.stack@ == old(self).stack@.drop_last(), self.ip == old(self).ip + 2, self.frames == old(self).frames, self.instructions == old(self).instructions, self.bp == old(self).bp, idx == u16_at(old(self).instructions@, old(self).ip as int), idx <= 0xFFFF, self.globals@.len() >= old(self).globals@.len(), self.globals@.len() <= (if old(self).globals@.len() > idx { old(self).globals@.len() as int } else { idx + 1 }), forall|i: int| 0 <= i < old(self).globals@.len() ==> self.globals@[i] == old(self).globals@[i], forall|i: int| old(self).globals@.len() <= i < self.globals@.len() ==> self.globals@[i] == spec_null(), decreases idx + 1 - self.globals@.len()
//@ARM file=vm.rs fn=run_code impl=VM arm="OpCode::SetGlobal" rules="R1;R4"
        Ok(())
    }

    /// GetGlobal: a slot that exists is pushed; a slot that has not been written yet is a ReferenceError, not a panic.
    fn arm_getglobal(&mut self) -> (r: Result<(), Error>)
        requires old(self).ip + 2 <= old(self).instructions@.len()
        ensures
            // static stack effect (table op_delta, opcodes.rs): what the code generator's height typing assumes of this opcode
            r is Ok ==> final(self).stack@.len() == old(self).stack@.len() + op_delta(OpCode::GetGlobal),
            //@VACUITY
            ({
                let idx = u16_at(old(self).instructions@, old(self).ip as int);
                if idx < old(self).globals@.len() {
                    r is Ok && final(self).stack@ == old(self).stack@.push(old(self).globals@[idx]) && final(self).ip == old(self).ip + 2 && same_but_ip_stack(*old(self), *final(self))
                } else { r matches Err(Error::ReferenceError(_)) }
            }),
    {
//@ARM file=vm.rs fn=run_code impl=VM arm="OpCode::GetGlobal" rules="R1;R4"
        Ok(())
    }

    fn arm_setlocal(&mut self) -> (r: Result<(), Error>)
        requires old(self).ip + 2 <= old(self).instructions@.len(), old(self).stack@.len() >= 1,
                 (old(self).bp as int) + u16_at(old(self).instructions@, old(self).ip as int) < old(self).stack@.len() - 1
        ensures
            // static stack effect (table op_delta, opcodes.rs): what the code generator's height typing assumes of this opcode
            r is Ok ==> final(self).stack@.len() == old(self).stack@.len() + op_delta(OpCode::SetLocal),
            //@VACUITY
            r is Ok,
            final(self).stack@ == old(self).stack@.drop_last().update(old(self).bp as int + u16_at(old(self).instructions@, old(self).ip as int), old(self).stack@.last()),
            final(self).ip == old(self).ip + 2, same_but_ip_stack(*old(self), *final(self)),
    {
//@ARM file=vm.rs fn=run_code impl=VM arm="OpCode::SetLocal" rules="R1;R4"
        Ok(())
    }

    fn arm_getlocal(&mut self) -> (r: Result<(), Error>)
        requires old(self).ip + 2 <= old(self).instructions@.len(),
                 (old(self).bp as int) + u16_at(old(self).instructions@, old(self).ip as int) < old(self).stack@.len()
        ensures
            // static stack effect (table op_delta, opcodes.rs): what the code generator's height typing assumes of this opcode
            r is Ok ==> final(self).stack@.len() == old(self).stack@.len() + op_delta(OpCode::GetLocal),
            //@VACUITY
            r is Ok,
            final(self).stack@ == old(self).stack@.push(old(self).stack@[old(self).bp as int + u16_at(old(self).instructions@, old(self).ip as int)]),
            final(self).ip == old(self).ip + 2, same_but_ip_stack(*old(self), *final(self)),
    {
//@ARM file=vm.rs fn=run_code impl=VM arm="OpCode::GetLocal" rules="R1;R4"
        Ok(())
    }

    /// Jump: control goes exactly to the operand
    fn arm_jump(&mut self) -> (r: Result<(), Error>)
        requires old(self).ip + 2 <= old(self).instructions@.len()
        ensures
            // static stack effect (table op_delta, opcodes.rs): what the code generator's height typing assumes of this opcode
            r is Ok ==> final(self).stack@.len() == old(self).stack@.len() + op_delta(OpCode::Jump),
            //@VACUITY
            r is Ok, final(self).ip == u16_at(old(self).instructions@, old(self).ip as int), same_but_ip(*old(self), *final(self)),
    {
//@ARM file=vm.rs fn=run_code impl=VM arm="OpCode::Jump" rules="R1;R4"
        Ok(())
    }

    /// JumpIfFalse: pops the condition; a non-boolean condition is a TypeError; nee jumps to the operand, ja
    /// falls through to the next instruction.
    fn arm_jumpiffalse(&mut self) -> (r: Result<(), Error>)
        requires old(self).ip + 2 <= old(self).instructions@.len(), old(self).stack@.len() >= 1
        ensures
            // static stack effect (table op_delta, opcodes.rs): what the code generator's height typing assumes of this opcode
            r is Ok ==> final(self).stack@.len() == old(self).stack@.len() + op_delta(OpCode::JumpIfFalse),
            //@VACUITY
            ({
                let c = old(self).stack@.last();
                if spec_tag(c) != Type::Bool { r matches Err(Error::TypeError(_)) } else {
                    &&& r is Ok
                    &&& final(self).stack@ == old(self).stack@.drop_last()
                    &&& final(self).ip == (if spec_bool(c) { old(self).ip + 2 } else { u16_at(old(self).instructions@, old(self).ip as int) })
                    &&& same_but_ip_stack(*old(self), *final(self))
                }
            }),
    {
//@ARM file=vm.rs fn=run_code impl=VM arm="OpCode::JumpIfFalse" rules="R1;R4"
        Ok(())
    }

    /// Pop: the popped value becomes the value of the last statement
    fn arm_pop(&mut self, final_result: &mut Object) -> (r: Result<(), Error>)
        requires old(self).stack@.len() >= 1
        ensures
            // static stack effect (table op_delta, opcodes.rs): what the code generator's height typing assumes of this opcode
            r is Ok ==> final(self).stack@.len() == old(self).stack@.len() + op_delta(OpCode::Pop),
            //@VACUITY
            r is Ok, *final(final_result) == old(self).stack@.last(), final(self).stack@ == old(self).stack@.drop_last(), same_but_stack(*old(self), *final(self)),
    {
//@ARM file=vm.rs fn=run_code impl=VM arm="OpCode::Pop" rules="R1;R4;R7"
        Ok(())
    }

    fn arm_null(&mut self) -> (r: Result<(), Error>)
        ensures
            // static stack effect (table op_delta, opcodes.rs): what the code generator's height typing assumes of this opcode
            r is Ok ==> final(self).stack@.len() == old(self).stack@.len() + op_delta(OpCode::Null),
            //@VACUITY
            r is Ok, final(self).stack@ == old(self).stack@.push(spec_null()), same_but_stack(*old(self), *final(self)),
    {
//@ARM file=vm.rs fn=run_code impl=VM arm="OpCode::Null" rules="R1;R4"
        Ok(())
    }
    fn arm_true(&mut self) -> (r: Result<(), Error>)
        ensures
            // static stack effect (table op_delta, opcodes.rs): what the code generator's height typing assumes of this opcode
            r is Ok ==> final(self).stack@.len() == old(self).stack@.len() + op_delta(OpCode::True),
            //@VACUITY
            r is Ok, final(self).stack@ == old(self).stack@.push(spec_mk_bool(true)), same_but_stack(*old(self), *final(self)),
    {
//@ARM file=vm.rs fn=run_code impl=VM arm="OpCode::True" rules="R1;R4"
        Ok(())
    }
    fn arm_false(&mut self) -> (r: Result<(), Error>)
        ensures
            // static stack effect (table op_delta, opcodes.rs): what the code generator's height typing assumes of this opcode
            r is Ok ==> final(self).stack@.len() == old(self).stack@.len() + op_delta(OpCode::False),
            //@VACUITY
            r is Ok, final(self).stack@ == old(self).stack@.push(spec_mk_bool(false)), same_but_stack(*old(self), *final(self)),
    {
//@ARM file=vm.rs fn=run_code impl=VM arm="OpCode::False" rules="R1;R4"
        Ok(())
    }

    /// Not: only on booleans
    fn arm_not(&mut self) -> (r: Result<(), Error>)
        requires old(self).stack@.len() >= 1
        ensures
            // static stack effect (table op_delta, opcodes.rs): what the code generator's height typing assumes of this opcode
            r is Ok ==> final(self).stack@.len() == old(self).stack@.len() + op_delta(OpCode::Not),
            //@VACUITY
            ({
                let x = old(self).stack@.last();
                if spec_tag(x) != Type::Bool { r matches Err(Error::TypeError(_)) } else {
                    r is Ok && final(self).stack@ == old(self).stack@.drop_last().push(spec_mk_bool(!spec_bool(x))) && same_but_stack(*old(self), *final(self))
                }
            }),
    {
//@ARM file=vm.rs fn=run_code impl=VM arm="OpCode::Not" rules="R1;R4"
        Ok(())
    }

    /// Negate: the exact negation of an integer, an error when it leaves the 61-bit range (-MIN_INT), the
    /// negated float for floats, TypeError for everything else
    fn arm_negate(&mut self, gc: &mut GC) -> (r: Result<(), Error>)
        requires old(self).stack@.len() >= 1
        ensures
            // static stack effect (table op_delta, opcodes.rs): what the code generator's height typing assumes of this opcode
            r is Ok ==> final(self).stack@.len() == old(self).stack@.len() + op_delta(OpCode::Negate),
            //@VACUITY
            ({
                let x = old(self).stack@.last();
                &&& (spec_tag(x) == Type::Int && MIN_INT <= -spec_int(x) <= MAX_INT ==> r is Ok && final(self).stack@.len() == old(self).stack@.len()
                        && spec_tag(final(self).stack@.last()) == Type::Int && spec_int(final(self).stack@.last()) == -spec_int(x)
                        && final(self).stack@.drop_last() == old(self).stack@.drop_last() && same_but_stack(*old(self), *final(self)))
                &&& (spec_tag(x) == Type::Int && !(MIN_INT <= -spec_int(x) <= MAX_INT) ==> r is Err)
                &&& (spec_tag(x) == Type::Float ==> r is Ok && final(self).stack@.drop_last() == old(self).stack@.drop_last() && spec_tag(final(self).stack@.last()) == Type::Float)
                &&& (spec_tag(x) != Type::Int && spec_tag(x) != Type::Float ==> r matches Err(Error::TypeError(_)))
            }),
    {
//@ARM file=vm.rs fn=run_code impl=VM arm="OpCode::Negate" rules="R1;R4;R6n"
        Ok(())
    }

    /// CallBuiltin: pops exactly `argc` arguments, hands them to the builtin IN CALL ORDER, pushes its answer
    fn arm_callbuiltin(&mut self, gc: &mut GC) -> (r: Result<(), Error>)
        requires old(self).ip + 2 <= old(self).instructions@.len(),
                 old(self).instructions@[old(self).ip as int] <= 6,
                 old(self).stack@.len() >= old(self).instructions@[old(self).ip as int + 1]
        ensures
            // static stack effect (table op_delta, opcodes.rs): what the code generator's height typing assumes of this opcode
            r is Ok ==> final(self).stack@.len() == old(self).stack@.len() + op_delta(OpCode::CallBuiltin) - old(self).instructions@[old(self).ip as int + 1],
            //@VACUITY
            ({
                let b = old(self).instructions@[old(self).ip as int];
                let argc = old(self).instructions@[old(self).ip as int + 1] as int;
                let n = old(self).stack@.len() as int;
                exists|res: Result<Object, Error>, a: Seq<Object>| #[trigger] builtin_rel(b, a, res) && a =~= old(self).stack@.subrange(n - argc, n) && match res {
                    Ok(v) => r is Ok && final(self).stack@ =~= old(self).stack@.subrange(0, n - argc).push(v) && final(self).ip == old(self).ip + 2 && same_but_ip_stack(*old(self), *final(self)),
                    Err(_) => r is Err,
                }
            }),
    {
//@LOOP 1 invariant old(self).stack@.len() >= num_args, num_args <= 255, args@.len() == __it.index@, self.stack@ =~= old(self).stack@.subrange(0, old(self).stack@.len() - __it.index@), self.ip == old(self).ip + 2, same_but_ip_stack(*old(self), *self), forall|j: int| 0 <= j < args@.len() ==> args@[j] == old(self).stack@[old(self).stack@.len() - 1 - j],
//@ARM file=vm.rs fn=run_code impl=VM arm="OpCode::CallBuiltin" rules="R8[unsafe { std::mem::transmute::<u8, Builtin>(builtin) }=>builtin_from_u8(builtin)];R8[&args=>args.as_slice()];R1;R4;R10;R11"
        Ok(())
    }

    /// Array: pops exactly `length` values and builds the array from them in source order
    fn arm_array(&mut self, gc: &mut GC) -> (r: Result<(), Error>)
        requires old(self).ip + 2 <= old(self).instructions@.len(),
                 old(self).stack@.len() >= u16_at(old(self).instructions@, old(self).ip as int)
        ensures
            // static stack effect (table op_delta, opcodes.rs): what the code generator's height typing assumes of this opcode
            r is Ok ==> final(self).stack@.len() == old(self).stack@.len() + op_delta(OpCode::Array) - u16_at(old(self).instructions@, old(self).ip as int),
            //@VACUITY
            r is Ok,
            ({
                let len = u16_at(old(self).instructions@, old(self).ip as int);
                let n = old(self).stack@.len() as int;
                &&& final(self).stack@.len() == n - len + 1
                &&& final(self).stack@.drop_last() =~= old(self).stack@.subrange(0, n - len)
                &&& spec_tag(final(self).stack@.last()) == Type::Array
                &&& spec_vec(final(self).stack@.last()) =~= old(self).stack@.subrange(n - len, n)
                &&& final(self).ip == old(self).ip + 2 && same_but_ip_stack(*old(self), *final(self))
            }),
    {
//@LOOP 1 invariant old(self).stack@.len() >= length, vec@.len() == __it.index@, self.stack@ =~= old(self).stack@.subrange(0, old(self).stack@.len() - __it.index@), self.ip == old(self).ip + 2, same_but_ip_stack(*old(self), *self), forall|j: int| 0 <= j < vec@.len() ==> vec@[j] == old(self).stack@[old(self).stack@.len() - 1 - j],
//@ARM file=vm.rs fn=run_code impl=VM arm="OpCode::Array" rules="R1;R4;R10;R11"
        Ok(())
    }

    /// IndexGet: target below index
    fn arm_indexget(&mut self, gc: &mut GC) -> (r: Result<(), Error>)
        requires old(self).stack@.len() >= 2
        ensures
            // static stack effect (table op_delta, opcodes.rs): what the code generator's height typing assumes of this opcode
            r is Ok ==> final(self).stack@.len() == old(self).stack@.len() + op_delta(OpCode::IndexGet),
            //@VACUITY
            ({
                let index = old(self).stack@.last();
                let left = old(self).stack@.drop_last().last();
                exists|res: Result<Object, Error>| #[trigger] index_get_rel(left, index, res) && match res {
                    Ok(v) => r is Ok && final(self).stack@ =~= old(self).stack@.drop_last().drop_last().push(v) && same_but_stack(*old(self), *final(self)),
                    Err(_) => r is Err,
                }
            }),
    {
//@ARM file=vm.rs fn=run_code impl=VM arm="OpCode::IndexGet" rules="R1;R4"
        Ok(())
    }

    /// IndexSet: target, index, value from bottom to top
    fn arm_indexset(&mut self) -> (r: Result<(), Error>)
        requires old(self).stack@.len() >= 3
        ensures
            // static stack effect (table op_delta, opcodes.rs): what the code generator's height typing assumes of this opcode
            r is Ok ==> final(self).stack@.len() == old(self).stack@.len() + op_delta(OpCode::IndexSet),
            //@VACUITY
            ({
                let value = old(self).stack@.last();
                let index = old(self).stack@.drop_last().last();
                let left = old(self).stack@.drop_last().drop_last().last();
                exists|res: Result<Object, Error>| #[trigger] index_set_rel(left, index, value, res) && match res {
                    Ok(v) => r is Ok && final(self).stack@ =~= old(self).stack@.drop_last().drop_last().drop_last().push(v) && same_but_stack(*old(self), *final(self)),
                    Err(_) => r is Err,
                }
            }),
    {
//@ARM file=vm.rs fn=run_code impl=VM arm="OpCode::IndexSet" rules="R1;R4"
        Ok(())
    }

    /// Halt: the value of the last statement is handed to the caller, after the collector has been told to
    /// stop managing it (so that dropping the collector does not free the result)
    fn arm_halt(&mut self, gc: &mut GC, final_result: Object) -> (r: Result<Object, Error>)
        ensures
            // static stack effect (table op_delta, opcodes.rs): what the code generator's height typing assumes of this opcode
            r is Ok ==> final(self).stack@.len() == old(self).stack@.len() + op_delta(OpCode::Halt),
            //@VACUITY
            r is Ok, r->Ok_0 == final_result, !gc_managed(*final(gc)).contains(final_result), *final(self) == *old(self),
    {
//@ARM file=vm.rs fn=run_code impl=VM arm="OpCode::Halt" rules="R1;R4"
    }

}


/// O02.needs  the number of values each simple arm requires on the operand stack (its `stack@.len() >= k` precondition
/// above) is the tabled `op_needs` that the code generator's static typing checks at every emission (O02.pop);
/// Array / CallBuiltin / Call require their operand count, which the emitting arm checks itself
pub proof fn lemma_arm_needs_are_tabled()
{
    assert(op_needs(OpCode::Add) == 2);
    assert(op_needs(OpCode::Subtract) == 2);
    assert(op_needs(OpCode::Divide) == 2);
    assert(op_needs(OpCode::Multiply) == 2);
    assert(op_needs(OpCode::Gt) == 2);
    assert(op_needs(OpCode::Gte) == 2);
    assert(op_needs(OpCode::Lt) == 2);
    assert(op_needs(OpCode::Lte) == 2);
    assert(op_needs(OpCode::Eq) == 2);
    assert(op_needs(OpCode::Neq) == 2);
    assert(op_needs(OpCode::Modulo) == 2);
    assert(op_needs(OpCode::And) == 2);
    assert(op_needs(OpCode::Or) == 2);
    assert(op_needs(OpCode::GtLocalConst) == 0);
    assert(op_needs(OpCode::GteLocalConst) == 0);
    assert(op_needs(OpCode::LtLocalConst) == 0);
    assert(op_needs(OpCode::LteLocalConst) == 0);
    assert(op_needs(OpCode::EqLocalConst) == 0);
    assert(op_needs(OpCode::NeqLocalConst) == 0);
    assert(op_needs(OpCode::AddLocalConst) == 0);
    assert(op_needs(OpCode::SubtractLocalConst) == 0);
    assert(op_needs(OpCode::MultiplyLocalConst) == 0);
    assert(op_needs(OpCode::DivideLocalConst) == 0);
    assert(op_needs(OpCode::ModuloLocalConst) == 0);
    assert(op_needs(OpCode::Const) == 0);
    assert(op_needs(OpCode::SetGlobal) == 1);
    assert(op_needs(OpCode::GetGlobal) == 0);
    assert(op_needs(OpCode::SetLocal) == 1);
    assert(op_needs(OpCode::GetLocal) == 0);
    assert(op_needs(OpCode::Jump) == 0);
    assert(op_needs(OpCode::JumpIfFalse) == 1);
    assert(op_needs(OpCode::Pop) == 1);
    assert(op_needs(OpCode::Null) == 0);
    assert(op_needs(OpCode::True) == 0);
    assert(op_needs(OpCode::False) == 0);
    assert(op_needs(OpCode::Not) == 1);
    assert(op_needs(OpCode::Negate) == 1);
    assert(op_needs(OpCode::IndexGet) == 2);
    assert(op_needs(OpCode::IndexSet) == 3);
    assert(op_needs(OpCode::Halt) == 0);
}

} // verus!
fn main() {}
