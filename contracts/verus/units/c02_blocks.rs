// Unit c02_blocks: block scoping and function definitions in the compiler (src/compiler.rs), verbatim:
// compile_block_statement and the Expr::Function arm.
use vstd::prelude::*;
verus! {
//@INCLUDE prelude_object.rs
//@INCLUDE opcodes.rs
//@INCLUDE prelude_compiler.rs except=compile_block_statement,compile_block_value
//@INCLUDE compiler_convert_assumed.rs
//@INCLUDE compiler_helpers_assumed.rs
//@INCLUDE genpost_lemmas.rs

impl Compiler {
    /// O09.4  compile_block_statement: an empty block is exactly one Null and touches no scope; a non-empty block
    /// compiles EVERY one of its statements, in order, ONE SCOPE DEEPER than the block itself, and is back at the
    /// block's own depth afterwards - so what it declares ceases to exist at its end.
    fn compile_block_statement(&mut self, stmts: &[Stmt]) -> (r: Result<(), Error>)
        requires gen_inv(*old(self))
        ensures
            //@VACUITY
            sym_wf(final(self).symbols), sym_globals_kept(old(self).symbols, final(self).symbols),
            block_post(*old(self), *final(self), stmts@, r is Ok),
            // the block generator meets the generator contract its callers assume (induction step)
            r is Ok ==> gen_post(*old(self), *final(self), true),
            // static height: an empty block is its one Null; the statements of a non-empty block leave nothing
            r is Ok ==> hstep(old(self).height@, final(self).height@, if stmts@.len() == 0 { 1int } else { 0int }),
    {
//@GHOST before="return Ok(());" proof { lemma_step_appended(*old(self), *self, 1); }
//@PRELOOP 1 proof { lemma_gen_post_same(*old(self), *self); }
//@GHOST before="self.compile_statement(s)?;" let ghost sb = *self;
//@GHOST after="self.compile_statement(s)?;" proof { lemma_gen_post_trans(*old(self), sb, *self, false, true); }
//@GHOST before="self.symbols.leave_scope();" let ghost s_end = *self;
//@GHOST after="self.symbols.leave_scope();" proof { lemma_gen_post_same(s_end, *self); lemma_gen_post_trans(*old(self), s_end, *self, false, false); lemma_gen_post_upgrade(*old(self), *self); }
//@LOOP 1 invariant sym_globals_kept(old(self).symbols, self.symbols), hstep(old(self).height@, self.height@, 0), gen_post(*old(self), *self, false), gen_inv(*self), stmts@.len() > 0, is_prefix(old(self).instructions@, self.instructions@), self.log@.len() == old(self).log@.len() + __it.index@, forall|i: int| 0 <= i < old(self).log@.len() ==> #[trigger] self.log@[i] == old(self).log@[i], __it.index@ == 0 ==> self.instructions@ == old(self).instructions@, __it.index@ > 0 ==> self.log@[old(self).log@.len() as int].start == old(self).instructions@.len() && self.log@[self.log@.len() - 1].end == self.instructions@.len(), forall|j: int| 0 <= j < __it.index@ - 1 ==> #[trigger] self.log@[old(self).log@.len() + j].end == self.log@[old(self).log@.len() + j + 1].start, sym_depth(self.symbols) == sym_depth(old(self).symbols) + 1, sym_contexts(self.symbols) == sym_contexts(old(self).symbols), sym_outer(self.symbols) == sym_outer(old(self).symbols), sym_outer_sizes(self.symbols) == sym_outer_sizes(old(self).symbols), __it.index@ > 0 ==> self.instructions@.len() > old(self).instructions@.len(), forall|j: int| 0 <= j < __it.index@ ==> #[trigger] self.log@[old(self).log@.len() + j].what == LogWhat::S(stmts@[j]) && self.log@[old(self).log@.len() + j].depth == sym_depth(old(self).symbols) + 1 && self.log@[old(self).log@.len() + j].contexts == sym_contexts(old(self).symbols),
//@BODY file=compiler.rs fn=compile_block_statement impl=Compiler sig="fn compile_block_statement(&mut self, stmts: &[Stmt]) -> Result<(), Error>" rules="R1;R4;R8[for s in stmts {=>for s in __it: stmts {]"
    }

    /// O11.v  compile_block_value: a block used as a VALUE leaves exactly one value - see block_value_post
    fn compile_block_value(&mut self, stmts: &[Stmt]) -> (r: Result<(), Error>)
        requires gen_inv(*old(self))
        ensures
            //@VACUITY
            sym_wf(final(self).symbols), sym_globals_kept(old(self).symbols, final(self).symbols),
            r is Ok ==> block_value_post(*old(self), *final(self), stmts@),
            // O11.h  a block used as a value leaves exactly ONE value, whatever its last statement is
            r is Ok ==> hstep(old(self).height@, final(self).height@, 1),
    {
//@GHOST after="self.compile_block_statement(stmts)?;" let ghost s_blk = *self;
//@GHOST before="Ok(())" proof { if stmts@.len() > 0 { if s_blk.last_instruction == Some(OpCode::Pop) { lemma_gen_post_remove_last(*old(self), s_blk, *self, true); } else { lemma_step_appended(s_blk, *self, 1); lemma_gen_post_trans(*old(self), s_blk, *self, true, true); assert(self.instructions@.last() == opcode_byte(OpCode::Null)); } } }
//@BODY file=compiler.rs fn=compile_block_value impl=Compiler sig="fn compile_block_value(&mut self, stmts: &[Stmt]) -> Result<(), Error>" rules="R1;R4"
    }

    /// O12.5 / O02.f  Expr::Function. Layout (n0 = code length before):
    ///   n0: Jump <after> | n0+3: body ... ReturnValue/Return | after: Const <f> [Set<slot>; Const <f>]
    ///  * the definition is jumped over; the body ALWAYS ends in ReturnValue or Return, so control cannot run off
    ///    the end of a function body into the code that follows it;
    ///  * the function value's entry point is the first byte of the body and its slot count is what the symbol
    ///    table reports for the function's context;
    ///  * the body is compiled in a FRESH function context (one more than outside) with the parameters declared in
    ///    order before anything else, and with NO loop of the definition site visible; both are restored afterwards;
    ///  * a named function is declared before its body is compiled (recursion) and stored in its slot.
    fn arm_function(&mut self, name: &String, parameters: &Vec<String>, body: &Vec<Stmt>) -> (r: Result<(), Error>)
        requires gen_inv(*old(self))
        ensures
            r is Ok ==> hstep(old(self).height@, final(self).height@, 1),
            //@VACUITY
            sym_wf(final(self).symbols), sym_globals_kept(old(self).symbols, final(self).symbols),
            r is Ok ==> is_prefix(old(self).instructions@, final(self).instructions@),
            r is Ok ==> function_post(*old(self), *final(self), name@, parameters@, body@),
            // the arm meets the generator contract it assumes of its callees (induction step)
            r is Ok ==> gen_post(*old(self), *final(self), true),
    {
//@GHOST before="let pos_jump = self.instructions.len();" let ghost s_def = *self;
//@GHOST after="self.symbols.new_context();" proof { /* O02.slot: a function body is a flow of its own - its local slots are counted from scratch */ self.locals_bound = Ghost(0int); } let ghost s_ctx = *self; proof { /* O12.rec: a named function defined at top level is declared BEFORE its body is compiled, so the body can call it */ if name@.len() > 0 && sym_contexts(old(self).symbols) == 1 { lemma_function_sees_itself(old(self).symbols, s_def.symbols, s_ctx.symbols, name@); assert(sym_resolve(s_ctx.symbols, name@) == Some(sym_define_symbol(old(self).symbols, name@))); } }
//@GHOST before="let result = self.compile_block_statement(body);" proof { /* no loop of the definition site is visible inside the body */ self.loop_h = Ghost(Seq::<H>::empty()); }
//@GHOST after="let pos_start_function = self.instructions.len();" proof { /* a function body is a flow of its own, entered by Call with an empty operand area */ self.height = Ghost(H::At(0)); } let ghost s_start = *self;
//@GHOST before="result?;" proof { self.loop_h = Ghost(old(self).loop_h@); } let ghost s_body = *self;
//@GHOST after="let num_locals = self.symbols.leave_context();" proof { /* O02.slot: EVERY local slot used in the body lies below the slot count stored in the function's descriptor (what Call reserves) */ assert(self.locals_bound@ <= num_locals); self.locals_bound = Ghost(old(self).locals_bound@); }
//@GHOST after="self.change_jump_operand_at(pos_jump, to_u16(self.instructions.len())?);" proof { /* the Jump over the body lands HERE; nothing may fall out of the end of the body */ self.height = Ghost(hjoin(self.height@, old(self).height@)); } let ghost s_patched = *self;
//@LOOP 1 invariant sym_globals_kept(old(self).symbols, self.symbols), sym_outer(s_ctx.symbols) == sym_outer(old(self).symbols).push(sym_depth(old(self).symbols)), sym_outer(self.symbols) == sym_outer(s_ctx.symbols), sym_outer_sizes(s_ctx.symbols) == sym_outer_sizes(old(self).symbols).push(sym_max_size(s_def.symbols) as int), sym_outer_sizes(self.symbols) == sym_outer_sizes(s_ctx.symbols), sym_outer_sizes(s_def.symbols) == sym_outer_sizes(old(self).symbols), s_ctx.log@ == old(self).log@, s_ctx.instructions@.len() == old(self).instructions@.len() + 3, s_ctx.instructions@[old(self).instructions@.len() as int] == opcode_byte(OpCode::Jump), is_prefix(old(self).instructions@, s_ctx.instructions@), sym_contexts(s_ctx.symbols) == sym_contexts(old(self).symbols) + 1, s_ctx.loop_contexts == old(self).loop_contexts, gen_inv(s_ctx), s_ctx.last_instruction == Some(OpCode::Jump), pos_jump == old(self).instructions@.len(), forall|i: int| 0 <= i < old(self).constants@.len() ==> s_ctx.constants@[i] == old(self).constants@[i], old(self).constants@.len() <= s_ctx.constants@.len(), self.instructions == s_ctx.instructions, self.last_instruction == s_ctx.last_instruction, self.loop_contexts == s_ctx.loop_contexts, self.log@ == s_ctx.log@, self.constants == s_ctx.constants, sym_contexts(self.symbols) == sym_contexts(s_ctx.symbols), sym_depth(self.symbols) == 1, sym_wf(self.symbols), sym_params(self.symbols).len() == __it.index@, forall|j: int| 0 <= j < __it.index@ ==> #[trigger] sym_params(self.symbols)[j] == parameters@[j]@,
//@GHOST before="self.emit_opcode(opcode);" proof { if symbol.scope == Scope::Local && self.locals_bound@ < symbol.index as int + 1 { self.locals_bound = Ghost(symbol.index as int + 1); } }
//@ARM file=compiler.rs fn=compile_expression impl=Compiler arm="Expr::Function" rules="R1;R4;R11;R8[for p in parameters {=>for p in __it: parameters {]"
        proof {
            let code = self.instructions@;
            let n0 = old(self).instructions@.len() as int;
            let k = old(self).log@.len() as int;
            assert(s_patched.instructions@[n0] == opcode_byte(OpCode::Jump));
            assert(code[n0] == opcode_byte(OpCode::Jump));
            let after = u16_at(code, n0 + 1);
            let ci = u16_at(code, after + 1);
            assert(after == s_patched.instructions@.len());
            assert(n0 + 3 < after && after + 3 <= code.len());
            assert(s_start.log@ == old(self).log@);
            assert(self.log@ == s_body.log@);
            assert(self.log@.len() == k + body@.len());
            assert forall|j: int| 0 <= j < body@.len() implies #[trigger] self.log@[k + j].what == LogWhat::S(body@[j])
                && self.log@[k + j].contexts == sym_contexts(old(self).symbols) + 1 && self.log@[k + j].depth == 2 by {
                assert(s_body.log@[k + j].what == LogWhat::S(body@[j]));
            }
            assert(code[after - 1] == opcode_byte(OpCode::ReturnValue) || code[after - 1] == opcode_byte(OpCode::Return));
            assert(code[after] == opcode_byte(OpCode::Const));
            assert(0 <= ci < self.constants@.len());
            assert(spec_tag(self.constants@[ci]) == Type::Function && spec_fn_ip(self.constants@[ci]) == n0 + 3);
            assert(self.loop_contexts@.len() == old(self).loop_contexts@.len());
            assert(sym_contexts(self.symbols) == sym_contexts(old(self).symbols));
            assert(code.len() <= 0xFFFF + 9);
            // generator contract: every loop context is exactly as before (swapped out and back), constants only
            // grew, and leave_context returned to the scope depth of the definition site
            assert(same_loops(*self, *old(self)));
            assert(sym_contexts(self.symbols) == sym_contexts(old(self).symbols));
            assert(sym_outer(s_start.symbols) == sym_outer(old(self).symbols).push(sym_depth(old(self).symbols)));
            assert(sym_outer(s_body.symbols) == sym_outer(s_start.symbols));
            assert(sym_outer(s_patched.symbols) == sym_outer(s_start.symbols));
            assert(sym_outer(self.symbols) =~= sym_outer(old(self).symbols));
            assert(sym_outer_sizes(s_start.symbols) == sym_outer_sizes(old(self).symbols).push(sym_max_size(s_def.symbols) as int));
            assert(sym_outer_sizes(s_body.symbols) == sym_outer_sizes(s_start.symbols));
            assert(sym_outer_sizes(s_patched.symbols) == sym_outer_sizes(s_start.symbols));
            assert(sym_outer_sizes(self.symbols) =~= sym_outer_sizes(old(self).symbols));
            assert(sym_depth(self.symbols) == sym_depth(old(self).symbols));
            assert(old(self).constants@.len() <= s_body.constants@.len());
            assert forall|i: int| 0 <= i < old(self).constants@.len() implies self.constants@[i] == old(self).constants@[i] by {
                assert(s_start.constants@[i] == old(self).constants@[i]);
                assert(s_body.constants@[i] == s_start.constants@[i]);
                assert(s_patched.constants@[i] == s_body.constants@[i]);
            }
            assert(consts_syms_kept(*old(self), *self));
            lemma_gen_post_closed_loop(*old(self), *self);
        }
        Ok(())
    }
}

/// see arm_function
pub open spec fn function_post(pre: Compiler, post: Compiler, name: Seq<char>, parameters: Seq<String>, body: Seq<Stmt>) -> bool {
    let n0 = pre.instructions@.len() as int;
    let k = pre.log@.len() as int;
    let code = post.instructions@;
    let after = u16_at(code, n0 + 1);
    let ci = u16_at(code, after + 1);
    &&& code[n0] == opcode_byte(OpCode::Jump)
    &&& n0 + 3 < after && after + 3 <= code.len() && code.len() <= 0xFFFF + 9
    // the body: every statement, in order, in a FRESH function context (one more than outside), one scope deep
    &&& post.log@.len() == k + body.len()
    &&& (forall|j: int| 0 <= j < body.len() ==> #[trigger] post.log@[k + j].what == LogWhat::S(body[j])
            && post.log@[k + j].contexts == sym_contexts(pre.symbols) + 1 && post.log@[k + j].depth == 2)
    &&& (body.len() > 0 ==> post.log@[k].start == n0 + 3)
    // the body ends in a return instruction, immediately before `after`
    &&& (code[after - 1] == opcode_byte(OpCode::ReturnValue) || code[after - 1] == opcode_byte(OpCode::Return))
    // the function value
    &&& code[after] == opcode_byte(OpCode::Const) && 0 <= ci < post.constants@.len()
    &&& spec_tag(post.constants@[ci]) == Type::Function && spec_fn_ip(post.constants@[ci]) == n0 + 3
    // loops and contexts of the definition site are restored
    &&& post.loop_contexts@.len() == pre.loop_contexts@.len()
    &&& sym_contexts(post.symbols) == sym_contexts(pre.symbols)
    // a named function is stored into the slot its declaration returned, and the value is reloaded
    &&& (name.len() > 0 ==> code.len() == after + 9
            && (code[after + 3] == opcode_byte(OpCode::SetGlobal) || code[after + 3] == opcode_byte(OpCode::SetLocal))
            && u16_at(code, after + 4) == sym_define_symbol(pre.symbols, name).index
            && code[after + 6] == opcode_byte(OpCode::Const) && u16_at(code, after + 7) == ci)
    &&& (name.len() == 0 ==> code.len() == after + 3)
}

} // verus!
fn main() {}
