// Unit c02_dispatch: the two recursive code generators of src/compiler.rs as WHOLE functions - the real match over
// every kind of expression / statement, with each arm's body outlined (rule R15) into the function that holds that
// arm's real text in the unit that verifies it. This closes the structural induction: the generator contract
// (gen_post, prelude_compiler.rs) that every arm ASSUMES of its recursive calls is PROVED here for every variant of
// the tree, from the contracts the arm units prove. rustc's exhaustiveness check of the real match + the extractor's
// check that every arm is mapped mean no kind of node escapes.
use vstd::prelude::*;
verus! {
//@INCLUDE prelude_object.rs
//@INCLUDE opcodes.rs
//@INCLUDE prelude_compiler.rs except=compile_expression,compile_statement
//@INCLUDE genpost_lemmas.rs

impl Compiler {
//@ASSUMES unit=c12_callsite.rs fn=arm_bool req="gen_inv(*old(self))" clause="r is Ok ==> gen_post(*old(self), *final(self), true)" clause2="sym_wf(final(self).symbols)" clause3="sym_globals_kept(old(self).symbols, final(self).symbols)" clauseH=1
//@ASSUMES unit=c12_callsite.rs fn=arm_float req="gen_inv(*old(self))" clause="r is Ok ==> gen_post(*old(self), *final(self), true)" clause2="sym_wf(final(self).symbols)" clause3="sym_globals_kept(old(self).symbols, final(self).symbols)" clauseH=1
//@ASSUMES unit=c12_callsite.rs fn=arm_int req="gen_inv(*old(self))" clause="r is Ok ==> gen_post(*old(self), *final(self), true)" clause2="sym_wf(final(self).symbols)" clause3="sym_globals_kept(old(self).symbols, final(self).symbols)" clauseH=1
//@ASSUMES unit=c12_callsite.rs fn=arm_string req="gen_inv(*old(self))" clause="r is Ok ==> gen_post(*old(self), *final(self), true)" clause2="sym_wf(final(self).symbols)" clause3="sym_globals_kept(old(self).symbols, final(self).symbols)" clauseH=1
//@ASSUMES unit=c09_slots.rs fn=arm_identifier req="gen_inv(*old(self))" clause="r is Ok ==> gen_post(*old(self), *final(self), true)" clause2="sym_wf(final(self).symbols)" clause3="sym_globals_kept(old(self).symbols, final(self).symbols)" clauseH=1
//@ASSUMES unit=c12_callsite.rs fn=arm_prefix req="gen_inv(*old(self))" clause="r is Ok ==> gen_post(*old(self), *final(self), true)" clause2="sym_wf(final(self).symbols)" clause3="sym_globals_kept(old(self).symbols, final(self).symbols)" clauseH=1
//@ASSUMES unit=c09_slots.rs fn=arm_assign req="gen_inv(*old(self))" clause="r is Ok ==> gen_post(*old(self), *final(self), true)" clause2="sym_wf(final(self).symbols)" clause3="sym_globals_kept(old(self).symbols, final(self).symbols)" clauseH=1
//@ASSUMES unit=c10_fused.rs fn=arm_infix req="gen_inv(*old(self)), operator_sem(*operator) != op_none()" clause="r is Ok ==> gen_post(*old(self), *final(self), true)" clause2="sym_wf(final(self).symbols)" clause3="sym_globals_kept(old(self).symbols, final(self).symbols)" clauseH=1
//@ASSUMES unit=c11_control.rs fn=arm_if req="gen_inv(*old(self))" clause="r is Ok ==> gen_post(*old(self), *final(self), true)" clause2="sym_wf(final(self).symbols)" clause3="sym_globals_kept(old(self).symbols, final(self).symbols)" clauseH=1
//@ASSUMES unit=c11_control.rs fn=arm_while req="gen_inv(*old(self))" clause="r is Ok ==> gen_post(*old(self), *final(self), true)" clause2="sym_wf(final(self).symbols)" clause3="sym_globals_kept(old(self).symbols, final(self).symbols)" clauseH=1
//@ASSUMES unit=c02_blocks.rs fn=arm_function req="gen_inv(*old(self))" clause="r is Ok ==> gen_post(*old(self), *final(self), true)" clause2="sym_wf(final(self).symbols)" clause3="sym_globals_kept(old(self).symbols, final(self).symbols)" clauseH=1
//@ASSUMES unit=c12_callsite.rs fn=arm_call req="gen_inv(*old(self))" clause="r is Ok ==> gen_post(*old(self), *final(self), true)" clause2="sym_wf(final(self).symbols)" clause3="sym_globals_kept(old(self).symbols, final(self).symbols)" clauseH=1
//@ASSUMES unit=c12_callsite.rs fn=arm_array req="gen_inv(*old(self))" clause="r is Ok ==> gen_post(*old(self), *final(self), true)" clause2="sym_wf(final(self).symbols)" clause3="sym_globals_kept(old(self).symbols, final(self).symbols)" clauseH=1
//@ASSUMES unit=c12_callsite.rs fn=arm_index req="gen_inv(*old(self))" clause="r is Ok ==> gen_post(*old(self), *final(self), true)" clause2="sym_wf(final(self).symbols)" clause3="sym_globals_kept(old(self).symbols, final(self).symbols)" clauseH=1
//@ASSUMES unit=c12_callsite.rs fn=arm_stmt_expr req="gen_inv(*old(self))" clause="r is Ok ==> gen_post(*old(self), *final(self), true)" clause2="sym_wf(final(self).symbols)" clause3="sym_globals_kept(old(self).symbols, final(self).symbols)" clauseH=1
//@ASSUMES unit=c12_callsite.rs fn=arm_stmt_block req="gen_inv(*old(self))" clause="r is Ok ==> gen_post(*old(self), *final(self), true)" clause2="sym_wf(final(self).symbols)" clause3="sym_globals_kept(old(self).symbols, final(self).symbols)" clauseH=1
//@ASSUMES unit=c09_slots.rs fn=arm_let req="gen_inv(*old(self))" clause="r is Ok ==> gen_post(*old(self), *final(self), true)" clause2="sym_wf(final(self).symbols)" clause3="sym_globals_kept(old(self).symbols, final(self).symbols)" clauseH=1
//@ASSUMES unit=c12_callsite.rs fn=arm_stmt_return req="gen_inv(*old(self))" clause="r is Ok ==> gen_post(*old(self), *final(self), true)" clause2="sym_wf(final(self).symbols)" clause3="sym_globals_kept(old(self).symbols, final(self).symbols)" clauseH=1
//@ASSUMES unit=c11_control.rs fn=arm_break req="gen_inv(*old(self))" clause="r is Ok ==> gen_post(*old(self), *final(self), true)" clause2="sym_wf(final(self).symbols)" clause3="sym_globals_kept(old(self).symbols, final(self).symbols)" clauseH=1
//@ASSUMES unit=c11_control.rs fn=arm_continue req="gen_inv(*old(self))" clause="r is Ok ==> gen_post(*old(self), *final(self), true)" clause2="sym_wf(final(self).symbols)" clause3="sym_globals_kept(old(self).symbols, final(self).symbols)" clauseH=1

    /// O02.ind.e  compile_expression: whatever the expression, on success the generator contract holds and the call is
    /// the one ghost-log entry its caller sees (the entries of the arm's own sub-calls are local to the arm).
    fn compile_expression(&mut self, expr: &Expr) -> (r: Result<(), Error>)
        requires gen_inv(*old(self)),
                 // RESIDUAL ASSUMPTION on the tree (a parser fact, not carried by the induction hypothesis the arms
                 // assume): an Infix node carries a binary operator - otherwise compile_operator panics
                 *expr matches Expr::Infix { operator, .. } ==> operator_sem(operator) != op_none(),
        ensures
            //@VACUITY
            r is Ok ==> final(self).log@ == old(self).log@.push(entry_e(*expr, *old(self), *final(self))),
            r is Ok ==> gen_post(*old(self), *final(self), true),
            r is Ok ==> hstep(old(self).height@, final(self).height@, 1),
            sym_wf(final(self).symbols), sym_globals_kept(old(self).symbols, final(self).symbols),
    {
//@GHOST before="Ok(())" let ghost s_arm = *self; proof { self.log = Ghost(old(self).log@.push(entry_e(*expr, *old(self), *self))); lemma_gen_post_ghost(*old(self), s_arm, *self, true); }
//@DISPATCH file=compiler.rs fn=compile_expression impl=Compiler sig="fn compile_expression(&mut self, expr: &Expr) -> Result<(), Error>" map="Expr::Bool { value }=>self.arm_bool(value)|Expr::Float { value }=>self.arm_float(value)|Expr::Int { value }=>self.arm_int(value)|Expr::String { value }=>self.arm_string(value)|Expr::Identifier(name)=>self.arm_identifier(name)|Expr::Prefix { operator, right }=>self.arm_prefix(operator, right)|Expr::Assign { left, right }=>self.arm_assign(left, right)|Expr::Infix { left, operator, right, }=>self.arm_infix(left, operator, right)|Expr::If { condition, consequence, alternative, }=>self.arm_if(condition, consequence, alternative)|Expr::While { condition, body }=>self.arm_while(condition, body)|Expr::Function { name, parameters, body, }=>self.arm_function(name, parameters, body)|Expr::Call { left, arguments }=>self.arm_call(left, arguments)|Expr::Array { values }=>self.arm_array(values)|Expr::Index { left, index }=>self.arm_index(left, index)"
    }

    /// O02.ind.s  compile_statement: the same for statements.
    fn compile_statement(&mut self, stmt: &Stmt) -> (r: Result<(), Error>)
        requires gen_inv(*old(self))
        ensures
            //@VACUITY
            r is Ok ==> final(self).log@ == old(self).log@.push(entry_s(*stmt, *old(self), *final(self))),
            r is Ok ==> gen_post(*old(self), *final(self), true),
            r is Ok ==> hstep(old(self).height@, final(self).height@, 0),
            sym_wf(final(self).symbols), sym_globals_kept(old(self).symbols, final(self).symbols),
    {
//@GHOST before="Ok(())" let ghost s_arm = *self; proof { self.log = Ghost(old(self).log@.push(entry_s(*stmt, *old(self), *self))); lemma_gen_post_ghost(*old(self), s_arm, *self, true); }
//@DISPATCH file=compiler.rs fn=compile_statement impl=Compiler sig="fn compile_statement(&mut self, stmt: &Stmt) -> Result<(), Error>" map="Stmt::Expr(expr)=>self.arm_stmt_expr(expr)|Stmt::Block(stmts)=>self.arm_stmt_block(stmts)|Stmt::Let(name, value)=>self.arm_let(name, value)|Stmt::Return(expr)=>self.arm_stmt_return(expr)|Stmt::Break=>self.arm_break()|Stmt::Continue=>self.arm_continue()"
    }
}

} // verus!
fn main() {}
