// Unit c02_helpers: the safe helper methods of VM (src/vm.rs), bodies verbatim.
use vstd::prelude::*;
verus! {
//@INCLUDE prelude_object.rs
//@INCLUDE opcodes.rs
//@INCLUDE prelude_vm.rs

impl Frame {
    fn new(ip: usize, base_pointer: u16) -> (f: Self)
        ensures f.ip == ip, f.base_pointer == base_pointer
    {
//@BODY file=vm.rs fn=new impl=Frame sig="fn new(ip: usize, base_pointer: u16) -> Self" rules=R4
    }
}

impl VM {
    /// requires: the addressed slot exists (the compiler's slot allocation + the Call arm's padding establish it)
    fn get_local(&self, rel_idx: u16) -> (o: Object)
        requires (self.bp as int) + (rel_idx as int) < self.stack@.len()
        ensures
            //@VACUITY
            o == self.stack@[self.bp as int + rel_idx as int]
    {
//@BODY file=vm.rs fn=get_local impl=VM sig="fn get_local(&self, rel_idx: u16) -> Object" rules=R4
    }

    fn set_local(&mut self, rel_idx: u16, value: Object)
        requires (old(self).bp as int) + (rel_idx as int) < old(self).stack@.len()
        ensures
            //@VACUITY
            final(self).stack@ == old(self).stack@.update(old(self).bp as int + rel_idx as int, value), same_but_stack(*old(self), *final(self))
    {
//@BODY file=vm.rs fn=set_local impl=VM sig="fn set_local(&mut self, rel_idx: u16, value: Object)" rules=R4
    }

    fn jump(&mut self, ip: u16)
        ensures
            //@VACUITY
            final(self).ip == ip as usize, same_but_ip(*old(self), *final(self))
    {
//@BODY file=vm.rs fn=jump impl=VM sig="fn jump(&mut self, ip: u16)" rules=R4
    }

    fn push(&mut self, obj: Object)
        ensures
            //@VACUITY
            final(self).stack@ == old(self).stack@.push(obj), same_but_stack(*old(self), *final(self))
    {
//@BODY file=vm.rs fn=push impl=VM sig="fn push(&mut self, obj: Object)" rules=R4
    }

    /// Pop a call frame: requires a caller frame below the current one.
    /// ensures: the operand stack is cut back to the popped frame's base (everything below is untouched),
    /// and ip / bp are the caller's saved values.
    fn popframe(&mut self)
        requires old(self).frames@.len() >= 2, (old(self).frames@.last().base_pointer as int) <= old(self).stack@.len()
        ensures
            //@VACUITY
            final(self).frames@ == old(self).frames@.drop_last(),
            final(self).stack@ == old(self).stack@.subrange(0, old(self).frames@.last().base_pointer as int),
            final(self).ip == old(self).frames@[old(self).frames@.len() - 2].ip,
            final(self).bp == old(self).frames@[old(self).frames@.len() - 2].base_pointer,
            final(self).globals == old(self).globals, final(self).instructions == old(self).instructions,
    {
//@BODY file=vm.rs fn=popframe impl=VM sig="fn popframe(&mut self)" rules=R4
    }

    /// Push a call frame: saves the return address in the frame being left; enters the callee.
    fn pushframe(&mut self, ip: u32, base_pointer: u16)
        requires old(self).frames@.len() >= 1
        ensures
            //@VACUITY
            final(self).frames@.len() == old(self).frames@.len() + 1,
            final(self).frames@.last().ip == ip as usize, final(self).frames@.last().base_pointer == base_pointer,
            final(self).frames@[old(self).frames@.len() - 1].ip == old(self).ip,
            final(self).frames@[old(self).frames@.len() - 1].base_pointer == old(self).frames@.last().base_pointer,
            forall|i: int| 0 <= i < old(self).frames@.len() - 1 ==> final(self).frames@[i] == old(self).frames@[i],
            final(self).ip == ip as usize, final(self).bp == base_pointer,
            final(self).stack == old(self).stack, final(self).globals == old(self).globals, final(self).instructions == old(self).instructions,
    {
//@BODY file=vm.rs fn=pushframe impl=VM sig="fn pushframe(&mut self, ip: u32, base_pointer: u16)" rules=R4
    }
}

} // verus!
fn main() {}
