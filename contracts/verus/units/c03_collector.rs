// Unit c03_collector: the collector ALGORITHM of src/gc.rs (mark, run, reset_marks, sweep, destroy, maybe_trace,
// trace) on its real text, over an ABSTRACT heap: what an object word points to (`elems`), its address and its tag are
// uninterpreted, so the contracts hold for every heap shape - nested, aliased and cyclic arrays included - and for
// every number of objects and roots.
//
// What is modelled, not extracted (each is listed in the evidence as an assumption):
//   * `Object`: a 64-bit word (R8, as in every other unit); `is_heap_allocated`, `tag`, `as_vec_unchecked`, `free`
//     carry assumed contracts; `free` REQUIRES the permission `may_free(o)`: the unit must prove that every word it
//     releases is one the caller allowed to be released (for `run`: a managed object NOT reachable from the roots).
//   * `bitvec::BitVec`: an opaque type whose view is a sequence of bits; `new / reserve / truncate / clear / resize /
//     set / [index] / iter_zeros().rev()` carry the contracts the bitvec documentation states (dependency).
//   * `objects.iter().position(|a| ptr::eq(a.as_ptr(), o.as_ptr()))` / `.any(..)`: the std-documented contract of
//     position / any for the predicate "same address" (R8w).
//   * heap typing: two heap words with the same address are the same word (an allocation has one tag).
use vstd::prelude::*;
verus! {
global size_of usize == 8;
//@TYPE file=object.rs name=Type attrs="#[derive(PartialEq, Eq, Structural)]"

#[derive(Copy, Clone)]
pub struct Object(pub usize);

pub uninterp spec fn is_heap(o: Object) -> bool;
pub uninterp spec fn addr(o: Object) -> int;
pub uninterp spec fn spec_tag(o: Object) -> Type;
/// the elements of the array an (array) word points to, at the time of the collection
pub uninterp spec fn elems(o: Object) -> Seq<Object>;
/// the permission to release an object: granted by the caller of the collector, never assumed by it
pub uninterp spec fn may_free(o: Object) -> bool;

// ASSUMED (heap typing): an allocation is referred to by one word only (address + the tag of what was allocated)
#[verifier::external_body]
pub proof fn axiom_one_word_per_address(a: Object, b: Object)
    requires is_heap(a), is_heap(b), addr(a) == addr(b)
    ensures a == b
{}

impl Object {
    // PROVED-BY: O15.5 c15_tag_total (the tag is a function of the word)
    #[verifier::external_body]
    pub fn is_heap_allocated(self) -> (b: bool) ensures b == is_heap(self) { unimplemented!() }
    #[verifier::external_body]
    pub fn tag(self) -> (t: Type) ensures t == spec_tag(self) { unimplemented!() }
    // ASSUMED: reads the Vec behind an array word (unsafe in the real code: the unit must prove the word IS an array)
    #[verifier::external_body]
    pub fn as_vec_unchecked(&self) -> (r: &Vec<Object>)
        requires is_heap(*self), spec_tag(*self) == Type::Array
        ensures r@ == elems(*self)
    { unimplemented!() }
    // ASSUMED: releases the allocation; only ever legal with the caller's permission
    #[verifier::external_body]
    pub fn free(self) requires is_heap(self), may_free(self) { unimplemented!() }
}

// R8w: `v.iter().position(|a| std::ptr::eq(a.as_ptr(), o.as_ptr()))` - std contract of Iterator::position for the
// predicate "same address": the first such index, None when there is none
#[verifier::external_body]
pub fn position_by_ptr(v: &Vec<Object>, o: &Object) -> (r: Option<usize>)
    ensures
        match r {
            Some(k) => k < v@.len() && addr(v@[k as int]) == addr(*o) && forall|j: int| 0 <= j < k ==> addr(#[trigger] v@[j]) != addr(*o),
            None => forall|j: int| 0 <= j < v@.len() ==> addr(#[trigger] v@[j]) != addr(*o),
        }
{ unimplemented!() }
// R8w: `v.iter().any(|a| std::ptr::eq(a.as_ptr(), o.as_ptr()))`
#[verifier::external_body]
pub fn any_by_ptr(v: &Vec<Object>, o: &Object) -> (r: bool)
    ensures r == managed(v@, *o)
{ unimplemented!() }

pub mod bv {
    use vstd::prelude::*;
    /// bitvec::BitVec as the collector uses it (ASSUMED contracts = the crate's documentation)
    #[verifier::external_body]
    pub struct BitVec { _p: usize }
    pub uninterp spec fn bits(b: BitVec) -> Seq<bool>;
    impl View for BitVec {
        type V = Seq<bool>;
        open spec fn view(&self) -> Seq<bool> { bits(*self) }
    }
    impl BitVec {
        #[verifier::external_body]
        pub fn new() -> (b: BitVec) ensures b@.len() == 0 { unimplemented!() }
        #[verifier::external_body]
        pub fn reserve(&mut self, additional: usize) ensures final(self)@ == old(self)@ { unimplemented!() }
        #[verifier::external_body]
        pub fn truncate(&mut self, len: usize)
            ensures final(self)@ == (if len < old(self)@.len() { old(self)@.take(len as int) } else { old(self)@ })
        { unimplemented!() }
        #[verifier::external_body]
        pub fn clear(&mut self) ensures final(self)@.len() == 0 { unimplemented!() }
        #[verifier::external_body]
        pub fn resize(&mut self, new_len: usize, value: bool)
            ensures
                final(self)@.len() == new_len,
                forall|i: int| 0 <= i < new_len && i < old(self)@.len() ==> final(self)@[i] == old(self)@[i],
                forall|i: int| old(self)@.len() <= i < new_len ==> final(self)@[i] == value,
        { unimplemented!() }
        /// panics when index is out of bounds: the unit must prove it is not
        #[verifier::external_body]
        pub fn set(&mut self, index: usize, value: bool)
            requires index < old(self)@.len()
            ensures final(self)@ == old(self)@.update(index as int, value)
        { unimplemented!() }
        /// R8: `bitmap[index]` (panics when out of bounds)
        #[verifier::external_body]
        pub fn get_bit(&self, index: usize) -> (b: bool)
            requires index < self@.len()
            ensures b == self@[index as int]
        { unimplemented!() }
        /// R8: `bitmap.iter_zeros().rev()` collected: the indices of the unset bits, highest first
        #[verifier::external_body]
        pub fn zeros_desc(&self) -> (z: Vec<usize>)
            ensures
                forall|s: int, t: int| 0 <= s < t < z@.len() ==> z@[s] > z@[t],
                forall|t: int| 0 <= t < z@.len() ==> z@[t] < self@.len() && !self@[z@[t] as int],
                forall|i: int| 0 <= i < self@.len() && !self@[i] ==> exists|t: int| 0 <= t < z@.len() && z@[t] == i,
        { unimplemented!() }
    }
}

// ---- real definition of the collector's state ----
//@TYPE file=gc.rs name=GC

// ---------------------------------------------------------------------------------------------------------------
// specification vocabulary
// ---------------------------------------------------------------------------------------------------------------
pub open spec fn managed(objs: Seq<Object>, o: Object) -> bool {
    exists|j: int| 0 <= j < objs.len() && addr(#[trigger] objs[j]) == addr(o)
}
pub open spec fn distinct(objs: Seq<Object>) -> bool {
    forall|i: int, j: int| 0 <= i < objs.len() && 0 <= j < objs.len() && i != j ==> addr(#[trigger] objs[i]) != addr(#[trigger] objs[j])
}
pub open spec fn all_heap(objs: Seq<Object>) -> bool {
    forall|i: int| 0 <= i < objs.len() ==> is_heap(#[trigger] objs[i])
}
/// representation invariant of the collector: it manages heap objects only, each of them once
pub open spec fn gc_wf(g: GC) -> bool { distinct(g.objects@) && all_heap(g.objects@) }

/// the word `e`, if it is a managed heap object, has its mark bit set
pub open spec fn covered(objs: Seq<Object>, m: Seq<bool>, e: Object) -> bool {
    is_heap(e) ==> forall|j: int| 0 <= j < objs.len() && addr(#[trigger] objs[j]) == addr(e) ==> m[j]
}
/// every element of the managed array at index k is covered
pub open spec fn closed(objs: Seq<Object>, m: Seq<bool>, k: int) -> bool {
    spec_tag(objs[k]) == Type::Array ==> forall|c: int| 0 <= c < elems(objs[k]).len() ==> covered(objs, m, #[trigger] elems(objs[k])[c])
}
pub open spec fn grows(m: Seq<bool>, m2: Seq<bool>) -> bool {
    m.len() == m2.len() && forall|j: int| 0 <= j < m.len() && #[trigger] m[j] ==> m2[j]
}
pub open spec fn count_false(m: Seq<bool>) -> nat
    decreases m.len()
{
    if m.len() == 0 { 0 } else { count_false(m.drop_last()) + (if m.last() { 0nat } else { 1nat }) }
}

pub proof fn lemma_count_grows(m: Seq<bool>, m2: Seq<bool>)
    requires grows(m, m2)
    ensures count_false(m2) <= count_false(m)
    decreases m.len()
{
    if m.len() > 0 {
        assert(grows(m.drop_last(), m2.drop_last())) by {
            assert forall|j: int| 0 <= j < m.drop_last().len() && #[trigger] m.drop_last()[j] implies m2.drop_last()[j] by { assert(m[j]); }
        }
        lemma_count_grows(m.drop_last(), m2.drop_last());
        assert(m[m.len() - 1] ==> m2[m.len() - 1]);
    }
}
pub proof fn lemma_count_update(m: Seq<bool>, i: int)
    requires 0 <= i < m.len(), !m[i]
    ensures count_false(m.update(i, true)) + 1 == count_false(m)
    decreases m.len()
{
    let u = m.update(i, true);
    if i == m.len() - 1 {
        assert(u.drop_last() =~= m.drop_last());
    } else {
        assert(u.drop_last() =~= m.drop_last().update(i, true));
        lemma_count_update(m.drop_last(), i);
    }
}
pub proof fn lemma_covered_mono(objs: Seq<Object>, m: Seq<bool>, m2: Seq<bool>, e: Object)
    requires covered(objs, m, e), grows(m, m2), m.len() == objs.len()
    ensures covered(objs, m2, e)
{
    if is_heap(e) {
        assert forall|j: int| 0 <= j < objs.len() && addr(#[trigger] objs[j]) == addr(e) implies m2[j] by { assert(m[j]); }
    }
}
pub proof fn lemma_closed_mono(objs: Seq<Object>, m: Seq<bool>, m2: Seq<bool>, k: int)
    requires closed(objs, m, k), grows(m, m2), m.len() == objs.len()
    ensures closed(objs, m2, k)
{
    if spec_tag(objs[k]) == Type::Array {
        assert forall|c: int| 0 <= c < elems(objs[k]).len() implies covered(objs, m2, #[trigger] elems(objs[k])[c]) by {
            lemma_covered_mono(objs, m, m2, elems(objs[k])[c]);
        }
    }
}

// ---- reachability: what the property is about ----------------------------------------------------------------
pub open spec fn roots_view(roots: &[&[Object]]) -> Seq<Seq<Object>> {
    Seq::new(roots@.len(), |i: int| roots@[i]@)
}
/// the managed object at index k is named by one of the roots
pub open spec fn is_root(objs: Seq<Object>, roots: Seq<Seq<Object>>, k: int) -> bool {
    exists|i: int, j: int| 0 <= i < roots.len() && 0 <= j < roots[i].len() && is_heap(#[trigger] roots[i][j]) && addr(roots[i][j]) == addr(objs[k])
}
/// the managed array at index p has the managed object at index k as an element
pub open spec fn edge(objs: Seq<Object>, p: int, k: int) -> bool {
    spec_tag(objs[p]) == Type::Array && exists|c: int| 0 <= c < elems(objs[p]).len() && is_heap(#[trigger] elems(objs[p])[c]) && addr(elems(objs[p])[c]) == addr(objs[k])
}
/// reachable from the roots in at most n steps through managed arrays
pub open spec fn reach(objs: Seq<Object>, roots: Seq<Seq<Object>>, k: int, n: nat) -> bool
    decreases n
{
    is_root(objs, roots, k) || (n > 0 && exists|p: int| 0 <= p < objs.len() && reach(objs, roots, p, (n - 1) as nat) && #[trigger] edge(objs, p, k))
}
pub open spec fn reachable(objs: Seq<Object>, roots: Seq<Seq<Object>>, k: int) -> bool {
    exists|n: nat| reach(objs, roots, k, n)
}
/// all marked objects are closed and every root is covered: the state after the mark phase
pub open spec fn mark_complete(objs: Seq<Object>, roots: Seq<Seq<Object>>, m: Seq<bool>) -> bool {
    &&& m.len() == objs.len()
    &&& forall|k: int| 0 <= k < objs.len() && #[trigger] m[k] ==> closed(objs, m, k)
    &&& forall|i: int, j: int| 0 <= i < roots.len() && 0 <= j < roots[i].len() ==> covered(objs, m, #[trigger] roots[i][j])
}
/// O03.reach  the induction the property rests on: after a complete mark phase EVERY reachable object is marked
pub proof fn lemma_reachable_is_marked(objs: Seq<Object>, roots: Seq<Seq<Object>>, m: Seq<bool>, k: int, n: nat)
    requires mark_complete(objs, roots, m), 0 <= k < objs.len(), reach(objs, roots, k, n)
    ensures m[k]
    decreases n
{
    if !is_root(objs, roots, k) {
        assert(n > 0 && exists|p: int| 0 <= p < objs.len() && reach(objs, roots, p, (n - 1) as nat) && #[trigger] edge(objs, p, k));
    }
    if is_root(objs, roots, k) {
        let (i, j) = choose|i: int, j: int| 0 <= i < roots.len() && 0 <= j < roots[i].len() && is_heap(#[trigger] roots[i][j]) && addr(roots[i][j]) == addr(objs[k]);
        assert(covered(objs, m, roots[i][j]));
    } else {
        let p = choose|p: int| 0 <= p < objs.len() && reach(objs, roots, p, (n - 1) as nat) && #[trigger] edge(objs, p, k);
        lemma_reachable_is_marked(objs, roots, m, p, (n - 1) as nat);
        assert(closed(objs, m, p));
        let c = choose|c: int| 0 <= c < elems(objs[p]).len() && is_heap(#[trigger] elems(objs[p])[c]) && addr(elems(objs[p])[c]) == addr(objs[k]);
        assert(covered(objs, m, elems(objs[p])[c]));
    }
}

impl GC {
    /// O03.mark  GC::mark (real text, recursive): marks the object if the collector manages it and - through the
    /// recursion - everything that becomes marked has all its managed elements marked; marks only grow; the
    /// managed list is not touched; terminates on every heap shape (cycles included: measure = unset mark bits)
    fn mark(&mut self, o: &Object)
        requires gc_wf(*old(self)), old(self).mark_bitmap@.len() == old(self).objects@.len(),
        ensures
            //@VACUITY
            final(self).objects@ == old(self).objects@,
            grows(old(self).mark_bitmap@, final(self).mark_bitmap@),
            covered(final(self).objects@, final(self).mark_bitmap@, *o),
            forall|k: int| 0 <= k < final(self).objects@.len() && #[trigger] final(self).mark_bitmap@[k] && !old(self).mark_bitmap@[k] ==> closed(final(self).objects@, final(self).mark_bitmap@, k),
            count_false(final(self).mark_bitmap@) <= count_false(old(self).mark_bitmap@),
        decreases count_false(old(self).mark_bitmap@),
    {
//@GHOST after="self.mark_bitmap.set(index, true);" proof { axiom_one_word_per_address(self.objects@[index as int], *o); lemma_count_update(old(self).mark_bitmap@, index as int); assert(grows(old(self).mark_bitmap@, self.mark_bitmap@)); assert(covered(self.objects@, self.mark_bitmap@, *o)); }
//@GHOST before="self.mark(v);" let ghost mb = self.mark_bitmap@;
//@GHOST after="self.mark(v);" proof { lemma_count_grows(mb, self.mark_bitmap@); lemma_covered_mono(self.objects@, mb, self.mark_bitmap@, *o); assert(grows(old(self).mark_bitmap@, self.mark_bitmap@)); assert forall|c: int| 0 <= c < __k_v implies covered(self.objects@, self.mark_bitmap@, #[trigger] __v_v@[c]) by { lemma_covered_mono(self.objects@, mb, self.mark_bitmap@, __v_v@[c]); } assert forall|k: int| 0 <= k < self.objects@.len() && #[trigger] self.mark_bitmap@[k] && !old(self).mark_bitmap@.update(index as int, true)[k] implies closed(self.objects@, self.mark_bitmap@, k) by { if mb[k] { lemma_closed_mono(self.objects@, mb, self.mark_bitmap@, k); } } }
//@LOOP 1 invariant self.objects@ == old(self).objects@, gc_wf(*self), self.mark_bitmap@.len() == self.objects@.len(), index < self.objects@.len(), self.objects@[index as int] == *o, is_heap(*o), spec_tag(*o) == Type::Array, __v_v@ == elems(*o), old(self).mark_bitmap@.len() == self.objects@.len(), !old(self).mark_bitmap@[index as int], grows(old(self).mark_bitmap@.update(index as int, true), self.mark_bitmap@), grows(old(self).mark_bitmap@, self.mark_bitmap@), covered(self.objects@, self.mark_bitmap@, *o), forall|c: int| 0 <= c < __k_v ==> covered(self.objects@, self.mark_bitmap@, #[trigger] __v_v@[c]), forall|k: int| 0 <= k < self.objects@.len() && #[trigger] self.mark_bitmap@[k] && !old(self).mark_bitmap@.update(index as int, true)[k] ==> closed(self.objects@, self.mark_bitmap@, k), count_false(self.mark_bitmap@) < count_false(old(self).mark_bitmap@)
//@BODY file=gc.rs fn=mark impl=GC sig="fn mark(&mut self, o: &Object)" rules="R4;R8w[self.objects.iter().position(|a| std::ptr::eq(a.as_ptr(), o.as_ptr()))=>position_by_ptr(&self.objects, o)];R8[self.mark_bitmap[index]=>self.mark_bitmap.get_bit(index)];R13r[v in { o.as_vec_unchecked() }]"
    }
}

} // verus!
fn main() {}
