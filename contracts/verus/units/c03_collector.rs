// Unit c03_collector: the collector ALGORITHM of src/gc.rs (mark, run, reset_marks, sweep, destroy, maybe_trace,
// trace) on its real text, over an ABSTRACT heap: what an object word points to (`elems`), its address and its tag are
// uninterpreted, so the contracts hold for every heap shape - nested, aliased and cyclic arrays included - and for
// every number of objects and roots.
//
// What is modelled, not extracted (each is listed in the evidence as an assumption):
//   * `Object`: a 64-bit word (R8, as in every other unit); `is_heap_allocated`, `tag`, `as_vec_unchecked`, `free`
//     carry assumed contracts; `free` REQUIRES the permission `may_free(o)`: the unit must prove that every word it
//     releases is one the caller allowed to be released (for `run`: a managed object NOT reachable from the roots).
//   * `bitvec::BitVec`: an opaque type whose view is a sequence of bits; `new / reserve / truncate / clear / resize /
//     set / [index] / iter_zeros().rev()` carry the contracts the bitvec documentation states (dependency).
//   * `objects.iter().position(|a| ptr::eq(a.as_ptr(), o.as_ptr()))` / `.any(..)`: the std-documented contract of
//     position / any for the predicate "same address" (R8w).
//   * heap typing: two heap words with the same address are the same word (an allocation has one tag).
use vstd::prelude::*;
verus! {
//@INCLUDE heap_model.rs
pub mod bv {
    use vstd::prelude::*;
    /// bitvec::BitVec as the collector uses it (ASSUMED contracts = the crate's documentation)
    #[verifier::external_body]
    pub struct BitVec { _p: usize }
    pub uninterp spec fn bits(b: BitVec) -> Seq<bool>;
    impl View for BitVec {
        type V = Seq<bool>;
        open spec fn view(&self) -> Seq<bool> { bits(*self) }
    }
    impl BitVec {
        #[verifier::external_body]
        pub fn new() -> (b: BitVec) ensures b@.len() == 0 { unimplemented!() }
        #[verifier::external_body]
        pub fn reserve(&mut self, additional: usize) ensures final(self)@ == old(self)@ { unimplemented!() }
        #[verifier::external_body]
        pub fn truncate(&mut self, len: usize)
            ensures final(self)@ == (if len < old(self)@.len() { old(self)@.take(len as int) } else { old(self)@ })
        { unimplemented!() }
        #[verifier::external_body]
        pub fn clear(&mut self) ensures final(self)@.len() == 0 { unimplemented!() }
        #[verifier::external_body]
        pub fn resize(&mut self, new_len: usize, value: bool)
            ensures
                final(self)@.len() == new_len,
                forall|i: int| 0 <= i < new_len && i < old(self)@.len() ==> final(self)@[i] == old(self)@[i],
                forall|i: int| old(self)@.len() <= i < new_len ==> final(self)@[i] == value,
        { unimplemented!() }
        /// panics when index is out of bounds: the unit must prove it is not
        #[verifier::external_body]
        pub fn set(&mut self, index: usize, value: bool)
            requires index < old(self)@.len()
            ensures final(self)@ == old(self)@.update(index as int, value)
        { unimplemented!() }
        /// R8: `bitmap[index]` (panics when out of bounds)
        #[verifier::external_body]
        pub fn get_bit(&self, index: usize) -> (b: bool)
            requires index < self@.len()
            ensures b == self@[index as int]
        { unimplemented!() }
        /// R8: `bitmap.iter_zeros().rev()` collected: the indices of the unset bits, highest first
        #[verifier::external_body]
        pub fn zeros_desc(&self) -> (z: Vec<usize>)
            ensures
                forall|s: int, t: int| 0 <= s < t < z@.len() ==> z@[s] > z@[t],
                forall|t: int| 0 <= t < z@.len() ==> z@[t] < self@.len() && !self@[z@[t] as int],
                forall|i: int| 0 <= i < self@.len() && !self@[i] ==> exists|t: int| 0 <= t < z@.len() && z@[t] == i,
        { unimplemented!() }
    }
}

// ---- real definition of the collector's state ----
//@TYPE file=gc.rs name=GC

// ---------------------------------------------------------------------------------------------------------------
// specification vocabulary
// ---------------------------------------------------------------------------------------------------------------
/// representation invariant of the collector: it manages heap objects only, each of them once
pub open spec fn gc_wf(g: GC) -> bool { distinct(g.objects@) && all_heap(g.objects@) }

/// the word `e`, if it is a managed heap object, has its mark bit set
pub open spec fn covered(objs: Seq<Object>, m: Seq<bool>, e: Object) -> bool {
    is_heap(e) ==> forall|j: int| 0 <= j < objs.len() && addr(#[trigger] objs[j]) == addr(e) ==> m[j]
}
/// every element of the managed array at index k is covered
pub open spec fn closed(objs: Seq<Object>, m: Seq<bool>, k: int) -> bool {
    spec_tag(objs[k]) == Type::Array ==> forall|c: int| 0 <= c < elems(objs[k]).len() ==> covered(objs, m, #[trigger] elems(objs[k])[c])
}
pub open spec fn grows(m: Seq<bool>, m2: Seq<bool>) -> bool {
    m.len() == m2.len() && forall|j: int| 0 <= j < m.len() && #[trigger] m[j] ==> m2[j]
}
pub open spec fn count_false(m: Seq<bool>) -> nat
    decreases m.len()
{
    if m.len() == 0 { 0 } else { count_false(m.drop_last()) + (if m.last() { 0nat } else { 1nat }) }
}

pub proof fn lemma_count_grows(m: Seq<bool>, m2: Seq<bool>)
    requires grows(m, m2)
    ensures count_false(m2) <= count_false(m)
    decreases m.len()
{
    if m.len() > 0 {
        assert(grows(m.drop_last(), m2.drop_last())) by {
            assert forall|j: int| 0 <= j < m.drop_last().len() && #[trigger] m.drop_last()[j] implies m2.drop_last()[j] by { assert(m[j]); }
        }
        lemma_count_grows(m.drop_last(), m2.drop_last());
        assert(m[m.len() - 1] ==> m2[m.len() - 1]);
    }
}
pub proof fn lemma_count_update(m: Seq<bool>, i: int)
    requires 0 <= i < m.len(), !m[i]
    ensures count_false(m.update(i, true)) + 1 == count_false(m)
    decreases m.len()
{
    let u = m.update(i, true);
    if i == m.len() - 1 {
        assert(u.drop_last() =~= m.drop_last());
    } else {
        assert(u.drop_last() =~= m.drop_last().update(i, true));
        lemma_count_update(m.drop_last(), i);
    }
}
pub proof fn lemma_covered_mono(objs: Seq<Object>, m: Seq<bool>, m2: Seq<bool>, e: Object)
    requires covered(objs, m, e), grows(m, m2), m.len() == objs.len()
    ensures covered(objs, m2, e)
{
    if is_heap(e) {
        assert forall|j: int| 0 <= j < objs.len() && addr(#[trigger] objs[j]) == addr(e) implies m2[j] by { assert(m[j]); }
    }
}
pub proof fn lemma_closed_mono(objs: Seq<Object>, m: Seq<bool>, m2: Seq<bool>, k: int)
    requires closed(objs, m, k), grows(m, m2), m.len() == objs.len()
    ensures closed(objs, m2, k)
{
    if spec_tag(objs[k]) == Type::Array {
        assert forall|c: int| 0 <= c < elems(objs[k]).len() implies covered(objs, m2, #[trigger] elems(objs[k])[c]) by {
            lemma_covered_mono(objs, m, m2, elems(objs[k])[c]);
        }
    }
}

// ---- reachability: what the property is about ----------------------------------------------------------------
pub open spec fn roots_view(roots: &[&[Object]]) -> Seq<Seq<Object>> {
    Seq::new(roots@.len(), |i: int| roots@[i]@)
}
/// the managed object at index k is named by one of the roots
pub open spec fn is_root(objs: Seq<Object>, roots: Seq<Seq<Object>>, k: int) -> bool {
    exists|i: int, j: int| 0 <= i < roots.len() && 0 <= j < roots[i].len() && is_heap(#[trigger] roots[i][j]) && addr(roots[i][j]) == addr(objs[k])
}
/// the managed array at index p has the managed object at index k as an element
pub open spec fn edge(objs: Seq<Object>, p: int, k: int) -> bool {
    spec_tag(objs[p]) == Type::Array && exists|c: int| 0 <= c < elems(objs[p]).len() && is_heap(#[trigger] elems(objs[p])[c]) && addr(elems(objs[p])[c]) == addr(objs[k])
}
/// reachable from the roots in at most n steps through managed arrays
pub open spec fn reach(objs: Seq<Object>, roots: Seq<Seq<Object>>, k: int, n: nat) -> bool
    decreases n
{
    is_root(objs, roots, k) || (n > 0 && exists|p: int| 0 <= p < objs.len() && reach(objs, roots, p, (n - 1) as nat) && #[trigger] edge(objs, p, k))
}
pub open spec fn reachable(objs: Seq<Object>, roots: Seq<Seq<Object>>, k: int) -> bool {
    exists|n: nat| reach(objs, roots, k, n)
}
/// all marked objects are closed and every root is covered: the state after the mark phase
pub open spec fn mark_complete(objs: Seq<Object>, roots: Seq<Seq<Object>>, m: Seq<bool>) -> bool {
    &&& m.len() == objs.len()
    &&& forall|k: int| 0 <= k < objs.len() && #[trigger] m[k] ==> closed(objs, m, k)
    &&& forall|i: int, j: int| 0 <= i < roots.len() && 0 <= j < roots[i].len() ==> covered(objs, m, #[trigger] roots[i][j])
}
/// O03.reach  the induction the property rests on: after a complete mark phase EVERY reachable object is marked
pub proof fn lemma_reachable_is_marked(objs: Seq<Object>, roots: Seq<Seq<Object>>, m: Seq<bool>, k: int, n: nat)
    requires mark_complete(objs, roots, m), 0 <= k < objs.len(), reach(objs, roots, k, n)
    ensures m[k]
    decreases n
{
    if !is_root(objs, roots, k) {
        assert(n > 0 && exists|p: int| 0 <= p < objs.len() && reach(objs, roots, p, (n - 1) as nat) && #[trigger] edge(objs, p, k));
    }
    if is_root(objs, roots, k) {
        let (i, j) = choose|i: int, j: int| 0 <= i < roots.len() && 0 <= j < roots[i].len() && is_heap(#[trigger] roots[i][j]) && addr(roots[i][j]) == addr(objs[k]);
        assert(covered(objs, m, roots[i][j]));
    } else {
        let p = choose|p: int| 0 <= p < objs.len() && reach(objs, roots, p, (n - 1) as nat) && #[trigger] edge(objs, p, k);
        lemma_reachable_is_marked(objs, roots, m, p, (n - 1) as nat);
        assert(closed(objs, m, p));
        let c = choose|c: int| 0 <= c < elems(objs[p]).len() && is_heap(#[trigger] elems(objs[p])[c]) && addr(elems(objs[p])[c]) == addr(objs[k]);
        assert(covered(objs, m, elems(objs[p])[c]));
    }
}

// ---- sweep: the bookkeeping of swap_remove over the unset bits, highest first --------------------------------
/// z lists exactly the indices of the unset bits of m, highest first
pub open spec fn zeros_of(z: Seq<usize>, m: Seq<bool>) -> bool {
    &&& forall|s: int, t: int| 0 <= s < t < z.len() ==> z[s] > z[t]
    &&& forall|t: int| 0 <= t < z.len() ==> z[t] < m.len() && !m[z[t] as int]
    &&& forall|i: int| 0 <= i < m.len() && !m[i] ==> exists|t: int| 0 <= t < z.len() && z[t] == i
}
/// indices below this bound have not been touched yet after t removals
/// x is one of the marked objects of the old list
pub open spec fn kept_marked(old_o: Seq<Object>, m: Seq<bool>, x: Object) -> bool {
    exists|k: int| 0 <= k < old_o.len() && #[trigger] m[k] && old_o[k] == x
}
pub open spec fn bound(z: Seq<usize>, t: int, n0: int) -> int { if t == 0 { n0 } else { z[t - 1] as int } }
/// cur is old rearranged by perm: positions below b untouched, positions from b on hold marked objects, and every
/// marked object from b on is still present
pub open spec fn sweep_inv(old_o: Seq<Object>, cur: Seq<Object>, m: Seq<bool>, perm: Seq<int>, b: int) -> bool {
    &&& perm.len() == cur.len()
    &&& 0 <= b <= perm.len()
    &&& forall|i: int| 0 <= i < perm.len() ==> 0 <= #[trigger] perm[i] < old_o.len() && cur[i] == old_o[perm[i]]
    &&& forall|i: int, j: int| 0 <= i < perm.len() && 0 <= j < perm.len() && i != j ==> #[trigger] perm[i] != #[trigger] perm[j]
    &&& forall|i: int| 0 <= i < b ==> #[trigger] perm[i] == i
    &&& forall|i: int| b <= i < perm.len() ==> m[#[trigger] perm[i]]
    &&& forall|k: int| b <= k < old_o.len() && #[trigger] m[k] ==> exists|i: int| 0 <= i < perm.len() && perm[i] == k
}
pub proof fn lemma_bound_step(z: Seq<usize>, t: int, m: Seq<bool>)
    requires zeros_of(z, m), 0 <= t < z.len()
    ensures
        z[t] < bound(z, t, m.len() as int),
        forall|i: int| z[t] < i < bound(z, t, m.len() as int) ==> #[trigger] m[i],
{
    assert forall|i: int| z[t] < i < bound(z, t, m.len() as int) implies #[trigger] m[i] by {
        if !m[i] {
            let s = choose|s: int| 0 <= s < z.len() && z[s] == i;
            if s < t { if t > 0 && s < t - 1 { assert(z[s] > z[t - 1]); } } else if s > t { assert(z[t] > z[s]); }
        }
    }
}
pub proof fn lemma_sweep_step(old_o: Seq<Object>, cur: Seq<Object>, cur2: Seq<Object>, m: Seq<bool>, perm: Seq<int>, z: Seq<usize>, t: int, n0: int)
    requires
        zeros_of(z, m), 0 <= t < z.len(), m.len() == n0, old_o.len() == n0,
        sweep_inv(old_o, cur, m, perm, bound(z, t, n0)),
        z[t] < bound(z, t, n0),
        forall|i: int| z[t] < i < bound(z, t, n0) ==> #[trigger] m[i],
        cur2 =~= cur.update(z[t] as int, cur.last()).drop_last(),
    ensures
        sweep_inv(old_o, cur2, m, perm.update(z[t] as int, perm.last()).drop_last(), bound(z, t + 1, n0)),
{
    let zt = z[t] as int;
    let b = bound(z, t, n0);
    let last = perm.len() - 1;
    let p2 = perm.update(zt, perm.last()).drop_last();
    assert(bound(z, t + 1, n0) == zt);
    assert forall|i: int| zt <= i < p2.len() implies m[#[trigger] p2[i]] by {
        if i == zt {
            if last >= b { assert(m[perm[last]]); } else { assert(perm[last] == last); assert(m[last]); }
        } else if i < b { assert(perm[i] == i); assert(m[i]); } else { assert(m[perm[i]]); }
    }
    assert forall|k: int| zt <= k < old_o.len() && #[trigger] m[k] implies exists|i: int| 0 <= i < p2.len() && p2[i] == k by {
        if k >= b {
            let i = choose|i: int| 0 <= i < perm.len() && perm[i] == k;
            if i == last { assert(p2[zt] == k); } else { assert(perm[zt] == zt); assert(p2[i] == k); }
        } else {
            assert(perm[k] == k);
            if k == last { assert(p2[zt] == k); } else { assert(p2[k] == k); }
        }
    }
    assert forall|i: int, j: int| 0 <= i < p2.len() && 0 <= j < p2.len() && i != j implies #[trigger] p2[i] != #[trigger] p2[j] by {
        let i0 = if i == zt { last } else { i };
        let j0 = if j == zt { last } else { j };
        assert(perm[i0] != perm[j0]);
    }
    assert forall|i: int| 0 <= i < p2.len() implies 0 <= #[trigger] p2[i] < old_o.len() && cur2[i] == old_o[p2[i]] by {
        let i0 = if i == zt { last } else { i };
        assert(0 <= perm[i0] < old_o.len() && cur[i0] == old_o[perm[i0]]);
    }
}
pub proof fn lemma_sweep_done(old_o: Seq<Object>, cur: Seq<Object>, m: Seq<bool>, perm: Seq<int>, z: Seq<usize>, n0: int)
    requires
        zeros_of(z, m), m.len() == n0, old_o.len() == n0, distinct(old_o), all_heap(old_o),
        sweep_inv(old_o, cur, m, perm, bound(z, z.len() as int, n0)),
    ensures
        distinct(cur), all_heap(cur),
        forall|k: int| 0 <= k < n0 && m[k] ==> cur.contains(#[trigger] old_o[k]),
        forall|j: int| 0 <= j < cur.len() ==> kept_marked(old_o, m, #[trigger] cur[j]),
{
    let b = bound(z, z.len() as int, n0);
    // nothing below the lowest unset bit is unset
    assert forall|i: int| 0 <= i < b implies #[trigger] m[i] by {
        if !m[i] {
            let s = choose|s: int| 0 <= s < z.len() && z[s] == i;
            if s < z.len() - 1 { assert(z[s] > z[z.len() - 1]); }
        }
    }
    assert forall|k: int| 0 <= k < n0 && m[k] implies cur.contains(#[trigger] old_o[k]) by {
        if k < b { assert(perm[k] == k); assert(cur[k] == old_o[k]); }
        else { let i = choose|i: int| 0 <= i < perm.len() && perm[i] == k; assert(cur[i] == old_o[k]); }
    }
    assert forall|j: int| 0 <= j < cur.len() implies kept_marked(old_o, m, #[trigger] cur[j]) by {
        let k = perm[j];
        if j < b { assert(perm[j] == j); assert(m[j]); } else { assert(m[perm[j]]); }
        assert(old_o[k] == cur[j]);
    }
    assert forall|i: int, j: int| 0 <= i < cur.len() && 0 <= j < cur.len() && i != j implies addr(#[trigger] cur[i]) != addr(#[trigger] cur[j]) by {
        assert(perm[i] != perm[j]);
        assert(cur[i] == old_o[perm[i]] && cur[j] == old_o[perm[j]]);
    }
    assert forall|i: int| 0 <= i < cur.len() implies is_heap(#[trigger] cur[i]) by { assert(cur[i] == old_o[perm[i]]); }
}

// ---- untrace ----------------------------------------------------------------------------------------------------
/// every element of a is an element of b
pub open spec fn sub(a: Seq<Object>, b: Seq<Object>) -> bool { forall|j: int| 0 <= j < a.len() ==> b.contains(#[trigger] a[j]) }
pub proof fn lemma_sub_step(a: Seq<Object>, b: Seq<Object>, c: Seq<Object>, o: Object)
    requires sub(a, b), sub(b, c), !managed(b, o)
    ensures sub(a, c), !managed(a, o)
{
    assert forall|j: int| 0 <= j < a.len() implies c.contains(#[trigger] a[j]) by {
        let i = choose|i: int| 0 <= i < b.len() && b[i] == a[j];
        assert(c.contains(b[i]));
    }
    if managed(a, o) {
        let j = choose|j: int| 0 <= j < a.len() && addr(#[trigger] a[j]) == addr(o);
        let i = choose|i: int| 0 <= i < b.len() && b[i] == a[j];
        assert(addr(b[i]) == addr(o));
    }
}
pub proof fn lemma_swap_remove(objs: Seq<Object>, pos: int, o: Object)
    requires distinct(objs), all_heap(objs), 0 <= pos < objs.len(), addr(objs[pos]) == addr(o)
    ensures ({
        let r = objs.update(pos, objs.last()).drop_last();
        distinct(r) && all_heap(r) && sub(r, objs) && !managed(r, o)
    })
{
    let r = objs.update(pos, objs.last()).drop_last();
    let last = objs.len() - 1;
    assert forall|j: int| 0 <= j < r.len() implies objs.contains(#[trigger] r[j]) && is_heap(r[j]) && addr(r[j]) != addr(o) by {
        let j0 = if j == pos { last } else { j };
        assert(r[j] == objs[j0]);
        assert(j0 != pos);
    }
    assert forall|i: int, j: int| 0 <= i < r.len() && 0 <= j < r.len() && i != j implies addr(#[trigger] r[i]) != addr(#[trigger] r[j]) by {
        let i0 = if i == pos { last } else { i };
        let j0 = if j == pos { last } else { j };
        assert(r[i] == objs[i0] && r[j] == objs[j0]);
    }
}

// ---- precision: nothing but what is reachable gets marked -----------------------------------------------------
/// the managed object at index k is reachable from the word src in at most n steps through managed arrays
pub open spec fn rf(objs: Seq<Object>, src: Object, k: int, n: nat) -> bool
    decreases n
{
    (is_heap(src) && addr(objs[k]) == addr(src)) || (n > 0 && exists|p: int| 0 <= p < objs.len() && rf(objs, src, p, (n - 1) as nat) && #[trigger] edge(objs, p, k))
}
pub open spec fn reachable_from(objs: Seq<Object>, src: Object, k: int) -> bool { exists|n: nat| rf(objs, src, k, n) }
/// x is one of the old managed objects that are reachable from the roots
pub open spec fn kept_reachable(objs: Seq<Object>, roots: Seq<Seq<Object>>, x: Object) -> bool {
    exists|k: int| 0 <= k < objs.len() && #[trigger] reachable(objs, roots, k) && objs[k] == x
}
/// what is reachable from an element of the managed array o is reachable from o
pub proof fn lemma_rf_prepend(objs: Seq<Object>, o: Object, idx: int, c: int, k: int, n: nat)
    requires 0 <= idx < objs.len(), 0 <= k < objs.len(), objs[idx] == o, is_heap(o), spec_tag(o) == Type::Array, 0 <= c < elems(o).len(), rf(objs, elems(o)[c], k, n)
    ensures rf(objs, o, k, n + 1)
    decreases n
{
    let v = elems(o)[c];
    if is_heap(v) && addr(objs[k]) == addr(v) {
        assert(rf(objs, o, idx, n));
        assert(edge(objs, idx, k));
    } else {
        let p = choose|p: int| 0 <= p < objs.len() && rf(objs, v, p, (n - 1) as nat) && #[trigger] edge(objs, p, k);
        lemma_rf_prepend(objs, o, idx, c, p, (n - 1) as nat);
        assert(rf(objs, o, p, n) && edge(objs, p, k));
    }
}
/// what is reachable from a root word is reachable from the roots
pub proof fn lemma_rf_root(objs: Seq<Object>, roots: Seq<Seq<Object>>, i: int, j: int, k: int, n: nat)
    requires 0 <= i < roots.len(), 0 <= j < roots[i].len(), 0 <= k < objs.len(), rf(objs, roots[i][j], k, n)
    ensures reach(objs, roots, k, n)
    decreases n
{
    let r = roots[i][j];
    if is_heap(r) && addr(objs[k]) == addr(r) {
        assert(is_heap(roots[i][j]) && addr(roots[i][j]) == addr(objs[k]));
        assert(is_root(objs, roots, k));
    } else {
        let p = choose|p: int| 0 <= p < objs.len() && rf(objs, r, p, (n - 1) as nat) && #[trigger] edge(objs, p, k);
        lemma_rf_root(objs, roots, i, j, p, (n - 1) as nat);
        assert(reach(objs, roots, p, (n - 1) as nat) && edge(objs, p, k));
    }
}
/// one recursive call of mark on the element c of o keeps "everything newly marked is reachable from o"
pub proof fn lemma_mark_precise_step(objs: Seq<Object>, o: Object, idx: int, c: int, m1: Seq<bool>, mb: Seq<bool>, m2: Seq<bool>)
    requires
        0 <= idx < objs.len(), objs[idx] == o, is_heap(o), spec_tag(o) == Type::Array, 0 <= c < elems(o).len(),
        m1.len() == objs.len(), mb.len() == objs.len(), m2.len() == objs.len(),
        forall|k: int| 0 <= k < objs.len() && #[trigger] mb[k] && !m1[k] ==> reachable_from(objs, o, k),
        forall|k: int| 0 <= k < objs.len() && #[trigger] m2[k] && !mb[k] ==> reachable_from(objs, elems(o)[c], k),
    ensures
        forall|k: int| 0 <= k < objs.len() && #[trigger] m2[k] && !m1[k] ==> reachable_from(objs, o, k),
{
    assert forall|k: int| 0 <= k < objs.len() && #[trigger] m2[k] && !m1[k] implies reachable_from(objs, o, k) by {
        if !mb[k] {
            let n = choose|n: nat| rf(objs, elems(o)[c], k, n);
            lemma_rf_prepend(objs, o, idx, c, k, n);
            assert(rf(objs, o, k, n + 1));
        }
    }
}
/// one call of mark on the root word roots[kr][ko] keeps "everything marked is reachable from the roots"
pub proof fn lemma_marks_precise(objs: Seq<Object>, roots: &[&[Object]], mb: Seq<bool>, m2: Seq<bool>, kr: int, ko: int)
    requires
        mb.len() == objs.len(), m2.len() == objs.len(), 0 <= kr < roots@.len(), 0 <= ko < roots@[kr]@.len(),
        forall|k: int| 0 <= k < objs.len() && #[trigger] mb[k] ==> reachable(objs, roots_view(roots), k),
        forall|k: int| 0 <= k < objs.len() && #[trigger] m2[k] && !mb[k] ==> reachable_from(objs, roots@[kr]@[ko], k),
    ensures
        forall|k: int| 0 <= k < objs.len() && #[trigger] m2[k] ==> reachable(objs, roots_view(roots), k),
{
    let rv = roots_view(roots);
    assert(rv[kr] == roots@[kr]@);
    assert forall|k: int| 0 <= k < objs.len() && #[trigger] m2[k] implies reachable(objs, rv, k) by {
        if !mb[k] {
            let n = choose|n: nat| rf(objs, roots@[kr]@[ko], k, n);
            lemma_rf_root(objs, rv, kr, ko, k, n);
        }
    }
}

// ---- run: the mark phase over all roots, then the sweep -------------------------------------------------------
pub proof fn lemma_marks_step(objs: Seq<Object>, roots: Seq<&[Object]>, mb: Seq<bool>, m2: Seq<bool>, kr: int, ko: int)
    requires
        mb.len() == objs.len(), grows(mb, m2), 0 <= kr < roots.len(), 0 <= ko < roots[kr]@.len(),
        forall|k: int| 0 <= k < objs.len() && #[trigger] mb[k] ==> closed(objs, mb, k),
        forall|k: int| 0 <= k < objs.len() && #[trigger] m2[k] && !mb[k] ==> closed(objs, m2, k),
        forall|i: int, j: int| 0 <= i < kr && 0 <= j < roots[i]@.len() ==> covered(objs, mb, #[trigger] roots[i]@[j]),
        forall|j: int| 0 <= j < ko ==> covered(objs, mb, #[trigger] roots[kr]@[j]),
        covered(objs, m2, roots[kr]@[ko]),
    ensures
        forall|k: int| 0 <= k < objs.len() && #[trigger] m2[k] ==> closed(objs, m2, k),
        forall|i: int, j: int| 0 <= i < kr && 0 <= j < roots[i]@.len() ==> covered(objs, m2, #[trigger] roots[i]@[j]),
        forall|j: int| 0 <= j < ko + 1 ==> covered(objs, m2, #[trigger] roots[kr]@[j]),
{
    assert forall|k: int| 0 <= k < objs.len() && #[trigger] m2[k] implies closed(objs, m2, k) by {
        if mb[k] { lemma_closed_mono(objs, mb, m2, k); }
    }
    assert forall|i: int, j: int| 0 <= i < kr && 0 <= j < roots[i]@.len() implies covered(objs, m2, #[trigger] roots[i]@[j]) by {
        lemma_covered_mono(objs, mb, m2, roots[i]@[j]);
    }
    assert forall|j: int| 0 <= j < ko + 1 implies covered(objs, m2, #[trigger] roots[kr]@[j]) by {
        if j < ko { lemma_covered_mono(objs, mb, m2, roots[kr]@[j]); }
    }
}
/// after a complete mark phase an unmarked object is not reachable: the caller's permission covers it
pub proof fn lemma_unmarked_unreachable(objs: Seq<Object>, roots: &[&[Object]], m: Seq<bool>)
    requires
        m.len() == objs.len(),
        forall|k: int| 0 <= k < objs.len() && #[trigger] m[k] ==> closed(objs, m, k),
        forall|i: int, j: int| 0 <= i < roots@.len() && 0 <= j < roots@[i]@.len() ==> covered(objs, m, #[trigger] roots@[i]@[j]),
        forall|k: int| 0 <= k < objs.len() && !reachable(objs, roots_view(roots), k) ==> may_free(#[trigger] objs[k]),
    ensures
        mark_complete(objs, roots_view(roots), m),
        forall|k: int| 0 <= k < objs.len() && !m[k] ==> may_free(#[trigger] objs[k]),
{
    let rv = roots_view(roots);
    assert forall|i: int, j: int| 0 <= i < rv.len() && 0 <= j < rv[i].len() implies covered(objs, m, #[trigger] rv[i][j]) by {
        assert(rv[i] == roots@[i]@);
        assert(covered(objs, m, roots@[i]@[j]));
    }
    assert forall|k: int| 0 <= k < objs.len() && !m[k] implies may_free(#[trigger] objs[k]) by {
        if reachable(objs, rv, k) {
            let n = choose|n: nat| reach(objs, rv, k, n);
            lemma_reachable_is_marked(objs, rv, m, k, n);
        }
    }
}
pub proof fn lemma_run_post(objs: Seq<Object>, roots: &[&[Object]], m: Seq<bool>, fin: Seq<Object>)
    requires
        mark_complete(objs, roots_view(roots), m),
        forall|k: int| 0 <= k < objs.len() && m[k] ==> fin.contains(#[trigger] objs[k]),
        forall|j: int| 0 <= j < fin.len() ==> kept_marked(objs, m, #[trigger] fin[j]),
        forall|k: int| 0 <= k < objs.len() && #[trigger] m[k] ==> reachable(objs, roots_view(roots), k),
    ensures
        forall|j: int| 0 <= j < fin.len() ==> kept_reachable(objs, roots_view(roots), #[trigger] fin[j]),
        forall|k: int| 0 <= k < objs.len() && reachable(objs, roots_view(roots), k) ==> fin.contains(#[trigger] objs[k]),
        forall|j: int| 0 <= j < fin.len() ==> objs.contains(#[trigger] fin[j]),
{
    let rv = roots_view(roots);
    assert forall|k: int| 0 <= k < objs.len() && reachable(objs, rv, k) implies fin.contains(#[trigger] objs[k]) by {
        let n = choose|n: nat| reach(objs, rv, k, n);
        lemma_reachable_is_marked(objs, rv, m, k, n);
    }
    assert forall|j: int| 0 <= j < fin.len() implies kept_reachable(objs, rv, #[trigger] fin[j]) by {
        let k = choose|k: int| 0 <= k < objs.len() && #[trigger] m[k] && objs[k] == fin[j];
        assert(reachable(objs, rv, k) && objs[k] == fin[j]);
    }
    assert forall|j: int| 0 <= j < fin.len() implies objs.contains(#[trigger] fin[j]) by {
        let k = choose|k: int| 0 <= k < objs.len() && #[trigger] m[k] && objs[k] == fin[j];
        assert(objs[k] == fin[j]);
    }
}

impl GC {
    /// O03.new  a new collector manages nothing
    pub fn new() -> (g: GC)
        ensures gc_wf(g), g.objects@.len() == 0,
    {
//@BODY file=gc.rs fn=new impl=GC sig="pub fn new() -> GC" rules="R4"
    }

    /// O03.untrace  untrace (real text, recursive): hands objects over to the caller - it only REMOVES entries from the
    /// managed list (never adds, never frees), the object itself is no longer managed, the list stays
    /// duplicate-free; terminates on cyclic arrays (measure = length of the managed list)
    pub fn untrace(&mut self, o: Object)
        requires gc_wf(*old(self)),
        ensures
            gc_wf(*final(self)), sub(final(self).objects@, old(self).objects@),
            final(self).objects@.len() <= old(self).objects@.len(),
            !managed(final(self).objects@, o),
        decreases old(self).objects@.len(),
    {
//@GHOST after="self.objects.swap_remove(pos);" proof { lemma_swap_remove(old(self).objects@, pos as int, o); axiom_heap_tags(o); }
//@GHOST before="self.untrace(*val);" let ghost ob = self.objects@;
//@GHOST after="self.untrace(*val);" proof { lemma_sub_step(self.objects@, ob, old(self).objects@, o); }
//@LOOP 1 invariant gc_wf(*self), sub(self.objects@, old(self).objects@), self.objects@.len() < old(self).objects@.len(), !managed(self.objects@, o), __v_val@ == elems(o)
//@BODY file=gc.rs fn=untrace impl=GC sig="pub fn untrace(&mut self, o: Object)" rules="R4;R8w[self.objects.iter().position(|a| std::ptr::eq(a.as_ptr(), o.as_ptr()))=>position_by_ptr(&self.objects, &o)];R13r[val in o.as_vec_unchecked()]"
    }

    /// O03.mark  GC::mark (real text, recursive): marks the object if the collector manages it and - through the
    /// recursion - everything that becomes marked has all its managed elements marked; marks only grow; the
    /// managed list is not touched; terminates on every heap shape (cycles included: measure = unset mark bits)
    fn mark(&mut self, o: &Object)
        requires gc_wf(*old(self)), old(self).mark_bitmap@.len() == old(self).objects@.len(),
        ensures
            //@VACUITY
            final(self).objects@ == old(self).objects@,
            grows(old(self).mark_bitmap@, final(self).mark_bitmap@),
            covered(final(self).objects@, final(self).mark_bitmap@, *o),
            forall|k: int| 0 <= k < final(self).objects@.len() && #[trigger] final(self).mark_bitmap@[k] && !old(self).mark_bitmap@[k] ==> closed(final(self).objects@, final(self).mark_bitmap@, k),
            count_false(final(self).mark_bitmap@) <= count_false(old(self).mark_bitmap@),
            // precision: whatever becomes marked is reachable from o
            forall|k: int| 0 <= k < final(self).objects@.len() && #[trigger] final(self).mark_bitmap@[k] && !old(self).mark_bitmap@[k] ==> reachable_from(final(self).objects@, *o, k),
        decreases count_false(old(self).mark_bitmap@),
    {
//@GHOST after="self.mark_bitmap.set(index, true);" proof { axiom_one_word_per_address(self.objects@[index as int], *o); lemma_count_update(old(self).mark_bitmap@, index as int); assert(grows(old(self).mark_bitmap@, self.mark_bitmap@)); assert(covered(self.objects@, self.mark_bitmap@, *o)); assert(rf(self.objects@, *o, index as int, 0)); assert(reachable_from(self.objects@, *o, index as int)); }
//@GHOST before="self.mark(v);" let ghost mb = self.mark_bitmap@;
//@GHOST after="self.mark(v);" proof { lemma_mark_precise_step(self.objects@, *o, index as int, __k_v as int, old(self).mark_bitmap@.update(index as int, true), mb, self.mark_bitmap@); lemma_count_grows(mb, self.mark_bitmap@); lemma_covered_mono(self.objects@, mb, self.mark_bitmap@, *o); assert(grows(old(self).mark_bitmap@, self.mark_bitmap@)); assert forall|c: int| 0 <= c < __k_v implies covered(self.objects@, self.mark_bitmap@, #[trigger] __v_v@[c]) by { lemma_covered_mono(self.objects@, mb, self.mark_bitmap@, __v_v@[c]); } assert forall|k: int| 0 <= k < self.objects@.len() && #[trigger] self.mark_bitmap@[k] && !old(self).mark_bitmap@.update(index as int, true)[k] implies closed(self.objects@, self.mark_bitmap@, k) by { if mb[k] { lemma_closed_mono(self.objects@, mb, self.mark_bitmap@, k); } } }
//@LOOP 1 invariant self.objects@ == old(self).objects@, gc_wf(*self), self.mark_bitmap@.len() == self.objects@.len(), index < self.objects@.len(), self.objects@[index as int] == *o, is_heap(*o), spec_tag(*o) == Type::Array, __v_v@ == elems(*o), old(self).mark_bitmap@.len() == self.objects@.len(), !old(self).mark_bitmap@[index as int], grows(old(self).mark_bitmap@.update(index as int, true), self.mark_bitmap@), grows(old(self).mark_bitmap@, self.mark_bitmap@), covered(self.objects@, self.mark_bitmap@, *o), forall|c: int| 0 <= c < __k_v ==> covered(self.objects@, self.mark_bitmap@, #[trigger] __v_v@[c]), forall|k: int| 0 <= k < self.objects@.len() && #[trigger] self.mark_bitmap@[k] && !old(self).mark_bitmap@.update(index as int, true)[k] ==> closed(self.objects@, self.mark_bitmap@, k), count_false(self.mark_bitmap@) < count_false(old(self).mark_bitmap@), reachable_from(self.objects@, *o, index as int), forall|k: int| 0 <= k < self.objects@.len() && #[trigger] self.mark_bitmap@[k] && !old(self).mark_bitmap@.update(index as int, true)[k] ==> reachable_from(self.objects@, *o, k)
//@BODY file=gc.rs fn=mark impl=GC sig="fn mark(&mut self, o: &Object)" rules="R4;R8w[self.objects.iter().position(|a| std::ptr::eq(a.as_ptr(), o.as_ptr()))=>position_by_ptr(&self.objects, o)];R8o[self.mark_bitmap[index]=>self.mark_bitmap.get_bit(index)];R13r[v in { o.as_vec_unchecked() }]"
    }
    /// O03.reset  reset_marks: one unset bit per managed object
    fn reset_marks(&mut self)
        ensures
            final(self).objects@ == old(self).objects@,
            final(self).mark_bitmap@.len() == final(self).objects@.len(),
            forall|i: int| 0 <= i < final(self).mark_bitmap@.len() ==> !final(self).mark_bitmap@[i],
    {
//@BODY file=gc.rs fn=reset_marks impl=GC sig="fn reset_marks(&mut self)" rules="R4"
    }

    /// O03.sweep  sweep: releases EXACTLY the unmarked objects (each once, each with the caller's permission) and
    /// keeps exactly the marked ones; the managed list stays duplicate-free
    pub fn sweep(&mut self)
        requires
            gc_wf(*old(self)), old(self).mark_bitmap@.len() == old(self).objects@.len(),
            forall|k: int| 0 <= k < old(self).objects@.len() && !old(self).mark_bitmap@[k] ==> may_free(#[trigger] old(self).objects@[k]),
        ensures
            //@VACUITY
            gc_wf(*final(self)),
            forall|k: int| 0 <= k < old(self).objects@.len() && old(self).mark_bitmap@[k] ==> final(self).objects@.contains(#[trigger] old(self).objects@[k]),
            forall|j: int| 0 <= j < final(self).objects@.len() ==> kept_marked(old(self).objects@, old(self).mark_bitmap@, #[trigger] final(self).objects@[j]),
    {
//@PRELOOP 1 let ghost mut perm: Seq<int> = Seq::new(self.objects@.len(), |i: int| i); let ghost n0 = self.objects@.len() as int; let ghost m = self.mark_bitmap@;
//@LOOP 1 invariant self.mark_bitmap@ == m, m == old(self).mark_bitmap@, n0 == old(self).objects@.len(), m.len() == n0, gc_wf(*old(self)), zeros_of(__v@, m), forall|k: int| 0 <= k < n0 && !m[k] ==> may_free(#[trigger] old(self).objects@[k]), sweep_inv(old(self).objects@, self.objects@, m, perm, bound(__v@, __k as int, n0)), self.objects@.len() == n0 - __k
//@GHOST after="let object = self.objects.swap_remove(unmarked);" proof { let last = perm.len() - 1; let bb = bound(__v@, __k as int, n0); assert(unmarked < bb); assert(perm[unmarked as int] == unmarked); assert(object == old(self).objects@[unmarked as int]); lemma_sweep_step(old(self).objects@, sw0, self.objects@, m, perm, __v@, __k as int, n0); perm = perm.update(unmarked as int, perm[last]).drop_last(); }
//@GHOST before="let object = self.objects.swap_remove(unmarked);" let ghost sw0 = self.objects@; proof { lemma_bound_step(__v@, __k as int, m); }
//@POSTLOOP 1 proof { lemma_sweep_done(old(self).objects@, self.objects@, m, perm, __v@, n0); }
//@BODY file=gc.rs fn=sweep impl=GC sig="pub fn sweep(&mut self)" rules="R4;R4d;R8[self.mark_bitmap.iter_zeros().rev()=>self.mark_bitmap.zeros_desc()];R13[unmarked in self.mark_bitmap.zeros_desc()]"
    }

    /// O03.destroy  destroy: everything the collector manages is released (with permission), nothing stays managed
    pub fn destroy(&mut self)
        requires gc_wf(*old(self)), forall|k: int| 0 <= k < old(self).objects@.len() ==> may_free(#[trigger] old(self).objects@[k]),
        ensures final(self).objects@.len() == 0,
    {
//@GHOST before="self.sweep();" let ghost o0 = self.objects@; let ghost m0 = self.mark_bitmap@;
//@GHOST after="self.sweep();" proof { if self.objects@.len() > 0 { assert(kept_marked(o0, m0, self.objects@[0])); } }
//@BODY file=gc.rs fn=destroy impl=GC sig="pub fn destroy(&mut self)" rules="R4"
    }

    /// O03.drop  `impl Drop for GC` (real text of `drop`): dropping a collector releases everything it still manages;
    /// the permission to do so is the owner's (nobody else may refer to a managed object when its collector dies)
    pub fn drop_impl(&mut self)
        requires gc_wf(*old(self)), forall|k: int| 0 <= k < old(self).objects@.len() ==> may_free(#[trigger] old(self).objects@[k]),
        ensures final(self).objects@.len() == 0,
    {
//@BODY file=gc.rs fn=drop impl=GC sig="fn drop(&mut self)" rules="R4"
    }

    /// O03.run  C03 itself: a collection releases ONLY managed objects that are NOT reachable from the roots (the
    /// caller's permission covers nothing else, and `free` demands it), and every managed object that IS reachable
    /// from a root - directly, or through any chain of managed arrays, however nested, shared or cyclic - is still
    /// managed afterwards; the collector's own invariant holds again
    pub fn run(&mut self, roots: &[&[Object]])
        requires
            gc_wf(*old(self)),
            forall|k: int| 0 <= k < old(self).objects@.len() && !reachable(old(self).objects@, roots_view(roots), k) ==> may_free(#[trigger] old(self).objects@[k]),
        ensures
            // (no vacuity marker here: run calls mark and sweep, whose contracts are falsified in the same pass, so only
            // an early-return path could fail it; the body was probed by hand with assert(false) at three points)
            gc_wf(*final(self)),
            forall|k: int| 0 <= k < old(self).objects@.len() && reachable(old(self).objects@, roots_view(roots), k) ==> final(self).objects@.contains(#[trigger] old(self).objects@[k]),
            forall|j: int| 0 <= j < final(self).objects@.len() ==> old(self).objects@.contains(#[trigger] final(self).objects@[j]),
            // precision (the collector's half of C04): what is still managed after a collection is reachable
            forall|j: int| 0 <= j < final(self).objects@.len() ==> kept_reachable(old(self).objects@, roots_view(roots), #[trigger] final(self).objects@[j]),
    {
//@LOOP 1 invariant self.objects@ == old(self).objects@, gc_wf(*self), self.mark_bitmap@.len() == self.objects@.len(), __v_root@ == roots@, forall|k: int| 0 <= k < self.objects@.len() && #[trigger] self.mark_bitmap@[k] ==> closed(self.objects@, self.mark_bitmap@, k), forall|i: int, j: int| 0 <= i < __k_root && 0 <= j < roots@[i]@.len() ==> covered(self.objects@, self.mark_bitmap@, #[trigger] roots@[i]@[j]), forall|k: int| 0 <= k < self.objects@.len() && #[trigger] self.mark_bitmap@[k] ==> reachable(self.objects@, roots_view(roots), k)
//@LOOP 2 invariant self.objects@ == old(self).objects@, gc_wf(*self), self.mark_bitmap@.len() == self.objects@.len(), __v_root@ == roots@, __k_root < roots@.len(), __v_obj@ == roots@[__k_root as int]@, forall|k: int| 0 <= k < self.objects@.len() && #[trigger] self.mark_bitmap@[k] ==> closed(self.objects@, self.mark_bitmap@, k), forall|i: int, j: int| 0 <= i < __k_root && 0 <= j < roots@[i]@.len() ==> covered(self.objects@, self.mark_bitmap@, #[trigger] roots@[i]@[j]), forall|j: int| 0 <= j < __k_obj ==> covered(self.objects@, self.mark_bitmap@, #[trigger] __v_obj@[j]), forall|k: int| 0 <= k < self.objects@.len() && #[trigger] self.mark_bitmap@[k] ==> reachable(self.objects@, roots_view(roots), k)
//@GHOST before="self.mark(obj);" let ghost mb = self.mark_bitmap@;
//@GHOST after="self.mark(obj);" proof { lemma_marks_step(self.objects@, roots@, mb, self.mark_bitmap@, __k_root as int, __k_obj as int); lemma_marks_precise(self.objects@, roots, mb, self.mark_bitmap@, __k_root as int, __k_obj as int); }
//@GHOST before="self.sweep();" let ghost m = self.mark_bitmap@; proof { lemma_unmarked_unreachable(self.objects@, roots, m); }
//@GHOST after="self.sweep();" proof { lemma_run_post(old(self).objects@, roots, m, self.objects@); }
//@BODY file=gc.rs fn=run impl=GC sig="pub fn run(&mut self, roots: &[&[Object]])" rules="R4;R13r[root in roots.iter()];R13r[obj in root.iter()]"
    }

    /// O03.trace  maybe_trace registers a heap object once, never twice, and never an immediate
    pub fn maybe_trace(&mut self, o: Object)
        requires gc_wf(*old(self)),
        ensures
            gc_wf(*final(self)),
            final(self).objects@ == (if is_heap(o) && !managed(old(self).objects@, o) { old(self).objects@.push(o) } else { old(self).objects@ }),
    {
//@BODY file=gc.rs fn=maybe_trace impl=GC sig="pub fn maybe_trace(&mut self, o: Object)" rules="R4;R8wo[self.objects.iter().any(|a| std::ptr::eq(a.as_ptr(), o.as_ptr()))=>any_by_ptr(&self.objects, &o)]"
    }

    /// O03.trace  trace registers a FRESH heap object (every call site follows an allocation)
    pub fn trace(&mut self, o: Object)
        requires gc_wf(*old(self)), is_heap(o), !managed(old(self).objects@, o),
        ensures gc_wf(*final(self)), final(self).objects@ == old(self).objects@.push(o),
    {
//@BODY file=gc.rs fn=trace impl=GC sig="pub fn trace(&mut self, o: Object)" rules="R4"
    }
}

} // verus!
fn main() {}
