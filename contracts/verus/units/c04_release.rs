// Unit c04_release: how the CALLER releases a result graph - Object::free_recursive and its helper collect_graph of
// src/object.rs, real text, over the same abstract heap as the collector unit (heap_model.rs): addresses, tags and
// array contents are uninterpreted, so the contract covers results that are nested, that share elements and that are
// cyclic. `Object::free` requires the permission `may_free`; the unit must prove that what it frees is (a) one of
// the objects reachable from the result, (b) not freed before in the same call, and that (c) nothing reachable
// is left out. Termination is NOT proved: the abstract heap does not say that a result graph is finite.
use vstd::prelude::*;
verus! {
//@INCLUDE heap_model.rs

/// the word `e`, if it is a heap object, is in the list
pub open spec fn listed(l: Seq<Object>, e: Object) -> bool { is_heap(e) ==> managed(l, e) }
/// every element of the array at index k of the list is listed
pub open spec fn closed_l(l: Seq<Object>, k: int) -> bool {
    spec_tag(l[k]) == Type::Array ==> forall|c: int| 0 <= c < elems(l[k]).len() ==> listed(l, #[trigger] elems(l[k])[c])
}
pub open spec fn extends(a: Seq<Object>, b: Seq<Object>) -> bool {
    a.len() <= b.len() && forall|i: int| 0 <= i < a.len() ==> #[trigger] b[i] == a[i]
}
/// the heap object x is reachable from the word src in at most n steps through arrays
pub open spec fn rw(src: Object, x: Object, n: nat) -> bool
    decreases n
{
    (is_heap(src) && is_heap(x) && addr(x) == addr(src))
    || (n > 0 && exists|p: Object, c: int| rw(src, p, (n - 1) as nat) && spec_tag(p) == Type::Array && 0 <= c < elems(p).len() && #[trigger] child_is(p, c, x))
}
pub open spec fn child_is(p: Object, c: int, x: Object) -> bool { is_heap(x) && addr(elems(p)[c]) == addr(x) && is_heap(elems(p)[c]) }
pub open spec fn reachable_w(src: Object, x: Object) -> bool { exists|n: nat| rw(src, x, n) }

pub proof fn lemma_listed_mono(a: Seq<Object>, b: Seq<Object>, e: Object)
    requires listed(a, e), extends(a, b)
    ensures listed(b, e)
{
    if is_heap(e) {
        let j = choose|j: int| 0 <= j < a.len() && addr(#[trigger] a[j]) == addr(e);
        assert(b[j] == a[j]);
    }
}
pub proof fn lemma_closed_l_mono(a: Seq<Object>, b: Seq<Object>, k: int)
    requires 0 <= k < a.len(), closed_l(a, k), extends(a, b)
    ensures closed_l(b, k)
{
    assert(b[k] == a[k]);
    if spec_tag(a[k]) == Type::Array {
        assert forall|c: int| 0 <= c < elems(b[k]).len() implies listed(b, #[trigger] elems(b[k])[c]) by {
            lemma_listed_mono(a, b, elems(a[k])[c]);
        }
    }
}
/// a list whose entries are all closed and that lists `src` lists everything reachable from `src`
pub proof fn lemma_reachable_listed(l: Seq<Object>, src: Object, x: Object, n: nat)
    requires
        distinct(l), all_heap(l), listed(l, src), forall|k: int| 0 <= k < l.len() ==> closed_l(l, k), rw(src, x, n),
    ensures managed(l, x)
    decreases n
{
    if is_heap(src) && is_heap(x) && addr(x) == addr(src) {
    } else {
        let (p, c) = choose|p: Object, c: int| rw(src, p, (n - 1) as nat) && spec_tag(p) == Type::Array && 0 <= c < elems(p).len() && #[trigger] child_is(p, c, x);
        lemma_reachable_listed(l, src, p, (n - 1) as nat);
        let k = choose|k: int| 0 <= k < l.len() && addr(#[trigger] l[k]) == addr(p);
        axiom_heap_tags(p);
        axiom_one_word_per_address(l[k], p);
        assert(closed_l(l, k));
        assert(listed(l, elems(l[k])[c]));
    }
}
/// what is reachable from an element of the array o is reachable from o
pub proof fn lemma_rw_prepend(o: Object, c: int, x: Object, n: nat)
    requires is_heap(o), spec_tag(o) == Type::Array, 0 <= c < elems(o).len(), rw(elems(o)[c], x, n)
    ensures rw(o, x, n + 1)
    decreases n
{
    let v = elems(o)[c];
    if is_heap(v) && is_heap(x) && addr(x) == addr(v) {
        assert(rw(o, o, n));
        assert(child_is(o, c, x));
    } else {
        let (p, d) = choose|p: Object, d: int| rw(v, p, (n - 1) as nat) && spec_tag(p) == Type::Array && 0 <= d < elems(p).len() && #[trigger] child_is(p, d, x);
        lemma_rw_prepend(o, c, p, (n - 1) as nat);
        assert(rw(o, p, n) && child_is(p, d, x));
    }
}

impl Object {
    /// O04.collect  collect_graph (real text, recursive): appends to `seen` - which stays duplicate-free - this object
    /// and, through the recursion, every heap object it refers to; every entry it adds has all its elements listed;
    /// it adds nothing that is not reachable from this object
    #[verifier::exec_allows_no_decreases_clause]
    fn collect_graph(self, seen: &mut Vec<Object>)
        requires distinct(old(seen)@), all_heap(old(seen)@),
        ensures
            //@VACUITY
            distinct(final(seen)@), all_heap(final(seen)@), extends(old(seen)@, final(seen)@),
            listed(final(seen)@, self),
            forall|k: int| old(seen)@.len() <= k < final(seen)@.len() ==> closed_l(final(seen)@, k),
            forall|k: int| old(seen)@.len() <= k < final(seen)@.len() ==> reachable_w(self, #[trigger] final(seen)@[k]),
    {
//@GHOST after="seen.push(self);" proof { assert(rw(self, self, 0)); assert(reachable_w(self, self)); axiom_heap_tags(self); assert(managed(seen@, self)) by { assert(addr(seen@[seen@.len() - 1]) == addr(self)); } }
//@GHOST before="o.collect_graph(seen);" let ghost sb = seen@;
//@GHOST after="o.collect_graph(seen);" proof { lemma_listed_mono(sb, seen@, self); assert forall|c: int| 0 <= c < __k_o implies listed(seen@, #[trigger] __v_o@[c]) by { lemma_listed_mono(sb, seen@, __v_o@[c]); } assert forall|k: int| n1 < k < seen@.len() implies closed_l(seen@, k) by { if k < sb.len() { lemma_closed_l_mono(sb, seen@, k); } } assert forall|k: int| n1 <= k < seen@.len() implies reachable_w(self, #[trigger] seen@[k]) by { if k >= sb.len() { let n = choose|n: nat| rw(*o, seen@[k], n); lemma_rw_prepend(self, __k_o as int, seen@[k], n); assert(rw(self, seen@[k], n + 1)); } else { assert(seen@[k] == sb[k]); } } }
//@PRELOOP 1 let ghost n1 = old(seen)@.len() as int;
//@LOOP 1 invariant n1 == old(seen)@.len(), distinct(seen@), all_heap(seen@), extends(old(seen)@, seen@), seen@.len() > n1, seen@[n1] == self, is_heap(self), spec_tag(self) == Type::Array, __v_o@ == elems(self), listed(seen@, self), forall|c: int| 0 <= c < __k_o ==> listed(seen@, #[trigger] __v_o@[c]), forall|k: int| n1 < k < seen@.len() ==> closed_l(seen@, k), forall|k: int| n1 <= k < seen@.len() ==> reachable_w(self, #[trigger] seen@[k])
//@BODY file=object.rs fn=collect_graph impl=Object sig="fn collect_graph(self, seen: &mut Vec<Object>)" rules="R4;R8wo[seen.iter().any(|a| std::ptr::eq(a.as_ptr(), self.as_ptr()))=>any_by_ptr(seen, &self)];R13r[o in { self.as_vec_unchecked() }]"
    }

    /// O04.release  free_recursive (real text): releases the result graph - EVERY heap object reachable from this object
    /// (however nested), EACH exactly once (also when it is referred to twice or through a cycle), and nothing else;
    /// `free` demands the permission, which this contract is given for the reachable objects only
    #[verifier::exec_allows_no_decreases_clause]
    pub fn free_recursive(self)
        requires forall|x: Object| reachable_w(self, x) ==> may_free(x),
    {
//@GHOST after="self.collect_graph(&mut seen);" proof { assert forall|x: Object| reachable_w(self, x) implies managed(seen@, x) by { let n = choose|n: nat| rw(self, x, n); lemma_reachable_listed(seen@, self, x, n); } }
//@LOOP 1 invariant __v@ == seen@, distinct(__v@), all_heap(__v@), forall|k: int| 0 <= k < __v@.len() ==> may_free(#[trigger] __v@[k])
//@GHOST before="o.free();" proof { assert forall|j: int| 0 <= j < __k implies addr(#[trigger] __v@[j]) != addr(o) by { } }
//@BODY file=object.rs fn=free_recursive impl=Object sig="pub fn free_recursive(self)" rules="R4;R13[o in seen]"
    }
}

} // verus!
fn main() {}
