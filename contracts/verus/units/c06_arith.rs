// Unit c06_arith: the integer arm of the five arithmetic operators (macro impl_arith, src/object.rs) and
// Object::checked_int, verified against mathematical integers.
use vstd::prelude::*;
verus! {
//@INCLUDE prelude_object.rs

// R6: the Float arm is specified and proved by Kani (O06.4a/O06.4t); here it is an opaque callee.
#[verifier::external_body]
pub fn float_arm(a: Object, b: Object, gc: &mut GC) -> (o: Object) ensures spec_tag(o) == Type::Float { unimplemented!() }

/// `tdiv`/`trem`: mathematical division truncating toward zero and the remainder with the sign of the
/// dividend. They are vstd's `rust_div`/`rust_rem` (the specification vstd gives to isize::checked_div/_rem);
/// `lemma_tdiv_trem` proves that this definition IS truncating division: a == b*q + r, |r| < |b|, and r is
/// zero or has the sign of a - so the operators' contracts below do not rest on reading vstd's definition.
pub open spec fn tdiv(a: int, b: int) -> int recommends b != 0 { vstd::arithmetic::div_mod::rust_div(a, b) }
pub open spec fn trem(a: int, b: int) -> int recommends b != 0 { vstd::arithmetic::div_mod::rust_rem(a, b) }
pub proof fn lemma_euclid(x: int, d: int)
    requires d != 0
    ensures x == d * (x / d) + (x % d), 0 <= x % d, x % d < (if d > 0 { d } else { -d })
{
    assert(x == d * (x / d) + (x % d) && 0 <= x % d && x % d < (if d > 0 { d } else { -d })) by (nonlinear_arith) requires d != 0;
}
pub proof fn lemma_tdiv_trem(a: int, b: int)
    requires b != 0
    ensures a == b * tdiv(a, b) + trem(a, b),
            (if b > 0 { -b < trem(a, b) < b } else { b < trem(a, b) < -b }),
            a >= 0 ==> trem(a, b) >= 0,
            a <= 0 ==> trem(a, b) <= 0,
{
    if a > 0 { lemma_euclid(a, b); } else if a < 0 { lemma_euclid(-a, b);
        assert(a == b * (-((-a) / b)) + (-((-a) % b))) by (nonlinear_arith) requires -a == b * ((-a) / b) + ((-a) % b);
    }
}
// in_range: prelude_object.rs

impl Object {
    /// contract (from the property statement): an in-range exact result is answered exactly, everything
    /// else - overflow, out of range, undefined - is an error.
    pub fn checked_int(value: Option<isize>) -> (r: Result<Object, Error>)
        ensures
            //@VACUITY
            (value is Some && in_range(value->Some_0 as int)) ==> (r is Ok && spec_tag(r->Ok_0) == Type::Int && spec_int(r->Ok_0) == value->Some_0),
            !(value is Some && in_range(value->Some_0 as int)) ==> r is Err,
    {
//@BODY file=object.rs fn=checked_int impl=Object sig="pub(crate) fn checked_int(value: Option<isize>) -> Result<Self, Error>" rules=R1;R4
    }

    pub fn add(self, rhs: Object, gc: &mut GC) -> (r: Result<Object, Error>)
        ensures
            //@VACUITY
            spec_tag(self) != spec_tag(rhs) ==> r is Err,
            (spec_tag(self) == Type::Int && spec_tag(rhs) == Type::Int) ==> (
                if in_range(spec_int(self) + spec_int(rhs)) { r is Ok && spec_tag(r->Ok_0) == Type::Int && spec_int(r->Ok_0) == spec_int(self) + spec_int(rhs) } else { r is Err }),
            (spec_tag(self) == spec_tag(rhs) && spec_tag(self) != Type::Int && spec_tag(self) != Type::Float) ==> r is Err,
    {
//@MACROFN file=object.rs macro=impl_arith args="add" sig="pub(crate) fn add(self, rhs: Self, gc: &mut GC) -> Result<Object, Error>" rules=R1;R4;R6
    }

    pub fn sub(self, rhs: Object, gc: &mut GC) -> (r: Result<Object, Error>)
        ensures
            //@VACUITY
            spec_tag(self) != spec_tag(rhs) ==> r is Err,
            (spec_tag(self) == Type::Int && spec_tag(rhs) == Type::Int) ==> (
                if in_range(spec_int(self) - spec_int(rhs)) { r is Ok && spec_tag(r->Ok_0) == Type::Int && spec_int(r->Ok_0) == spec_int(self) - spec_int(rhs) } else { r is Err }),
            (spec_tag(self) == spec_tag(rhs) && spec_tag(self) != Type::Int && spec_tag(self) != Type::Float) ==> r is Err,
    {
//@MACROFN file=object.rs macro=impl_arith args="sub" sig="pub(crate) fn sub(self, rhs: Self, gc: &mut GC) -> Result<Object, Error>" rules=R1;R4;R6
    }

    pub fn mul(self, rhs: Object, gc: &mut GC) -> (r: Result<Object, Error>)
        ensures
            //@VACUITY
            spec_tag(self) != spec_tag(rhs) ==> r is Err,
            (spec_tag(self) == Type::Int && spec_tag(rhs) == Type::Int) ==> (
                if in_range(spec_int(self) * spec_int(rhs)) { r is Ok && spec_tag(r->Ok_0) == Type::Int && spec_int(r->Ok_0) == spec_int(self) * spec_int(rhs) } else { r is Err }),
            (spec_tag(self) == spec_tag(rhs) && spec_tag(self) != Type::Int && spec_tag(self) != Type::Float) ==> r is Err,
    {
//@MACROFN file=object.rs macro=impl_arith args="mul" sig="pub(crate) fn mul(self, rhs: Self, gc: &mut GC) -> Result<Object, Error>" rules=R1;R4;R6
    }

    #[verifier::nonlinear]   // |a / b| <= |a| is needed to drop the isize clip of vstd's checked_div spec
    pub fn div(self, rhs: Object, gc: &mut GC) -> (r: Result<Object, Error>)
        ensures
            //@VACUITY
            spec_tag(self) != spec_tag(rhs) ==> r is Err,
            (spec_tag(self) == Type::Int && spec_tag(rhs) == Type::Int) ==> (
                if spec_int(rhs) != 0 && in_range(tdiv(spec_int(self), spec_int(rhs))) { r is Ok && spec_tag(r->Ok_0) == Type::Int && spec_int(r->Ok_0) == tdiv(spec_int(self), spec_int(rhs)) } else { r is Err }),
            (spec_tag(self) == spec_tag(rhs) && spec_tag(self) != Type::Int && spec_tag(self) != Type::Float) ==> r is Err,
    {
//@MACROFN file=object.rs macro=impl_arith args="div" sig="pub(crate) fn div(self, rhs: Self, gc: &mut GC) -> Result<Object, Error>" rules=R1;R4;R6
    }

    pub fn rem(self, rhs: Object, gc: &mut GC) -> (r: Result<Object, Error>)
        ensures
            //@VACUITY
            spec_tag(self) != spec_tag(rhs) ==> r is Err,
            (spec_tag(self) == Type::Int && spec_tag(rhs) == Type::Int) ==> (
                if spec_int(rhs) != 0 { r is Ok && spec_tag(r->Ok_0) == Type::Int && spec_int(r->Ok_0) == trem(spec_int(self), spec_int(rhs)) } else { r is Err }),
            (spec_tag(self) == spec_tag(rhs) && spec_tag(self) != Type::Int && spec_tag(self) != Type::Float) ==> r is Err,
    {
//@MACROFN file=object.rs macro=impl_arith args="rem" sig="pub(crate) fn rem(self, rhs: Self, gc: &mut GC) -> Result<Object, Error>" rules=R1;R4;R6
    }
}

} // verus!
fn main() {}
