// Unit c09_names: the symbol table's context discipline (src/symbols.rs, wrappers verbatim; the per-context
// name lists are opaque) and the compiler arms that turn names into slots (src/compiler.rs).
use vstd::prelude::*;
verus! {
//@INCLUDE prelude_object.rs
//@INCLUDE opcodes.rs

//@TYPE file=symbols.rs name=Scope attrs="#[derive(PartialEq, Eq, Structural, Copy, Clone)]"
//@TYPE file=symbols.rs name=Symbol

/// One context (global, or one function being compiled): opaque here. NOT DECIDED by any obligation: its
/// own define/resolve (Vec<Vec<String>> with iterator adapters: no Verus model; > 500 s in CBMC even for a
/// concrete 4-step scenario). The spec functions below only NAME what those two methods answer.
#[verifier::external_body]
pub struct Context { _p: usize }
pub uninterp spec fn ctx_resolve(c: Context, name: Seq<char>) -> Option<Symbol>;
pub uninterp spec fn ctx_after_define(c: Context, name: Seq<char>) -> Context;
pub uninterp spec fn ctx_define_symbol(c: Context, name: Seq<char>) -> Symbol;
pub uninterp spec fn ctx_max_size(c: Context) -> usize;
pub uninterp spec fn ctx_new(scope: Scope) -> Context;
pub uninterp spec fn ctx_enter(c: Context) -> Context;
pub uninterp spec fn ctx_leave(c: Context) -> Context;
pub uninterp spec fn ctx_depth(c: Context) -> nat;
impl Context {
    #[verifier::external_body]
    fn new(scope: Scope) -> (c: Self) ensures c == ctx_new(scope) { unimplemented!() }
    #[verifier::external_body]
    fn max_size(&self) -> (n: usize) ensures n == ctx_max_size(*self) { unimplemented!() }
    #[verifier::external_body]
    // PROVED-BY (totality and the Err case): O05.sym c05_define_total (Kani, real Context::define)
    fn define(&mut self, name: &str) -> (r: Result<Symbol, Error>)
        ensures r is Ok ==> *final(self) == ctx_after_define(*old(self), name@) && r->Ok_0 == ctx_define_symbol(*old(self), name@),
                r is Err ==> *final(self) == *old(self)
    { unimplemented!() }
    #[verifier::external_body]
    fn resolve(&self, name: &str) -> (r: Option<Symbol>) ensures r == ctx_resolve(*self, name@) { unimplemented!() }
}

//@TYPE file=symbols.rs name=SymbolTable

impl SymbolTable {
    pub fn new() -> (t: Self)
        ensures t.contexts@ == seq![ctx_new(Scope::Global)]
    {
//@BODY file=symbols.rs fn=new impl=SymbolTable sig="pub fn new() -> Self" rules="R4"
    }

    /// a function body gets a fresh LOCAL context on top; everything below is untouched
    pub fn new_context(&mut self)
        ensures final(self).contexts@ == old(self).contexts@.push(ctx_new(Scope::Local))
    {
//@BODY file=symbols.rs fn=new_context impl=SymbolTable sig="pub fn new_context(&mut self)" rules="R4"
    }

    /// leaving a function forgets exactly its own context and reports its slot count
    pub fn leave_context(&mut self) -> (n: usize)
        requires old(self).contexts@.len() >= 1
        ensures final(self).contexts@ == old(self).contexts@.drop_last(), n == ctx_max_size(old(self).contexts@.last())
    {
//@BODY file=symbols.rs fn=leave_context impl=SymbolTable sig="pub fn leave_context(&mut self) -> usize" rules="R4"
    }

    /// the context declarations and lookups act on: the innermost one
    fn current_context(&mut self) -> (c: &mut Context)
        requires old(self).contexts@.len() >= 1
        ensures *c == old(self).contexts@.last(),
                final(self).contexts@ == old(self).contexts@.drop_last().push(*final(c)),
    {
//@BODY file=symbols.rs fn=current_context impl=SymbolTable sig="fn current_context(&mut self) -> &mut Context" rules="R4"
    }

    pub fn in_function(&self) -> (b: bool)
        ensures b == (self.contexts@.len() > 1)
    {
//@BODY file=symbols.rs fn=in_function impl=SymbolTable sig="pub fn in_function(&self) -> bool" rules="R4"
    }

    /// O09.1w  lookup: the CURRENT context first; only if it has no such name, and only when we are inside a
    /// function, the GLOBAL context (index 0) - never the context of an enclosing function (indices 1..len-2)
    pub fn resolve(&mut self, name: &str) -> (r: Option<Symbol>)
        requires old(self).contexts@.len() >= 1
        ensures
            //@VACUITY
            final(self).contexts@ == old(self).contexts@,
            ({
                let cur = ctx_resolve(old(self).contexts@.last(), name@);
                if cur is Some { r == cur }
                else if old(self).contexts@.len() > 1 { r == ctx_resolve(old(self).contexts@[0], name@) }
                else { r is None }
            }),
    {
//@BODY file=symbols.rs fn=resolve impl=SymbolTable sig="pub fn resolve(&mut self, name: &str) -> Option<Symbol>" rules="R4"
    }

    /// a declaration goes into the current context only
    pub fn define(&mut self, name: &str) -> (r: Result<Symbol, Error>)
        requires old(self).contexts@.len() >= 1
        ensures
            //@VACUITY
            r is Ok ==> final(self).contexts@ == old(self).contexts@.drop_last().push(ctx_after_define(old(self).contexts@.last(), name@))
                && r->Ok_0 == ctx_define_symbol(old(self).contexts@.last(), name@),
            r is Err ==> final(self).contexts@ =~= old(self).contexts@,
    {
//@BODY file=symbols.rs fn=define impl=SymbolTable sig="pub fn define(&mut self, name: &str) -> Result<Symbol, Error>" rules="R4"
    }
}

} // verus!
fn main() {}
