// Unit c09_names: the symbol table of src/symbols.rs. The table-level functions and the scope push / pop are verified
// on their real bodies; the two per-context functions with iterator closures (Context::define / resolve) carry
// contracts over the VIEW of the real struct (stack of scopes of names) that Kani obligations check on the real
// code, and the lexical-scoping statements of the property are lemmas over those contracts (all sizes).
use vstd::prelude::*;
verus! {
//@INCLUDE prelude_object.rs
//@INCLUDE opcodes.rs

//@INCLUDE symbols_spec.rs

impl Context {
    /// a fresh context has exactly one (empty) open scope
    fn new(scope: Scope) -> (c: Self) ensures ctx_is_new(c, scope)
    {
//@BODY file=symbols.rs fn=new impl=Context sig="fn new(scope: Scope) -> Self" rules="R4"
    }
    fn max_size(&self) -> (n: usize) ensures n == ctx_max_size(*self)
    {
//@BODY file=symbols.rs fn=max_size impl=Context sig="fn max_size(&self) -> usize" rules="R4"
    }
    // ASSUMED here (iterator fold / rposition / closures have no Verus model). PROVED-BY on the real code:
    //  O05.sym c05_define_total (Kani, every symbol count, modular over total_len): slot == count, Err leaves the context alone;
    //  O09.len c09_total_len (bounded): total_len == flat_len
    #[verifier::external_body]
    fn define(&mut self, name: &str) -> (r: Result<Symbol, Error>)
        requires ctx_view(*old(self)).len() >= 1
        ensures r is Ok ==> ctx_after_define(*old(self), name@, *final(self)) && r->Ok_0 == ctx_define_symbol(*old(self), name@) && flat_len(ctx_view(*old(self))) <= 0xFFFF,
                r is Err ==> *final(self) == *old(self),
                // DERIVED (lemma_define_keeps_size, symbols_spec.rs): follows from the Ok clause above
                (r is Ok && ctx_sized(*old(self))) ==> ctx_sized(*final(self)) && ctx_view(*final(self)).len() == ctx_view(*old(self)).len()
    { unimplemented!() }
    //  O09.res c09_resolve_two_scopes (Kani, bounded: two scopes of 0..=2 names): the answer is slot_of of the view
    #[verifier::external_body]
    fn resolve(&self, name: &str) -> (r: Option<Symbol>) ensures r == ctx_resolve(*self, name@) { unimplemented!() }
}

// ---- what the slot function means (lemmas over the contracts above; all sizes) -----------------------------
/// O09.L1  an inner block may declare the same name without disturbing the outer variable: inside a block a name
/// means the block's own (last) declaration if it has one - a FRESH slot beyond every outer slot - and otherwise
/// exactly what it meant outside
pub proof fn lemma_inner_scope(v: Scopes, inner: Seq<Seq<char>>, name: Seq<char>)
    ensures slot_of(v.push(inner), name) == (match last_pos(inner, name) { Some(j) => Some(flat_len(v) + j), None => slot_of(v, name) }),
            last_pos(inner, name) is Some ==> slot_of(v.push(inner), name)->Some_0 >= flat_len(v),
{
    assert(v.push(inner).drop_last() =~= v);
    assert(v.push(inner).last() == inner);
    lemma_last_pos_range(inner, name);
}
/// O09.L3  declaring a name does not change what any OTHER name means
pub proof fn lemma_declare_frames_others(v: Scopes, name: Seq<char>, other: Seq<char>)
    requires v.len() >= 1, other != name
    ensures slot_of(declare(v, name), other) == slot_of(v, other)
{
    let w = declare(v, name);
    assert(w.drop_last() =~= v.drop_last());
    assert(w.last() == v.last().push(name));
    assert(v.last().push(name).drop_last() =~= v.last());
}
/// O09.L4  a variable ceases to exist at the end of its block: opening a scope, declaring any names in it and
/// closing it leaves every name meaning exactly what it meant before (the view is the same stack of scopes)
pub proof fn lemma_block_roundtrip(v: Scopes, inner: Seq<Seq<char>>, name: Seq<char>)
    ensures slot_of(v.push(inner).drop_last(), name) == slot_of(v, name)
{
    assert(v.push(inner).drop_last() =~= v);
}

impl SymbolTable {
    pub fn new() -> (t: Self)
        ensures t.contexts@.len() == 1, ctx_is_new(t.contexts@[0], Scope::Global),
                sym_wf(t), sym_contexts(t) == 1, sym_depth(t) == 1,
    {
//@BODY file=symbols.rs fn=new impl=SymbolTable sig="pub fn new() -> Self" rules="R4"
    }

    /// a function body gets a fresh LOCAL context (one empty scope) on top; everything below is untouched
    pub fn new_context(&mut self)
        requires sym_wf(*old(self))
        ensures
            sym_max_size(*final(self)) == 0,
            sym_globals_kept(*old(self), *final(self)),
            final(self).contexts@.len() == old(self).contexts@.len() + 1, final(self).contexts@.drop_last() =~= old(self).contexts@,
            ctx_is_new(final(self).contexts@.last(), Scope::Local),
            sym_wf(*final(self)), sym_contexts(*final(self)) == sym_contexts(*old(self)) + 1, sym_depth(*final(self)) == 1,
            sym_params(*final(self)).len() == 0, sym_outer(*final(self)) == sym_outer(*old(self)).push(sym_depth(*old(self))),
            sym_outer_sizes(*final(self)) == sym_outer_sizes(*old(self)).push(sym_max_size(*old(self)) as int),
    {
//@BODY file=symbols.rs fn=new_context impl=SymbolTable sig="pub fn new_context(&mut self)" rules="R4"
        proof {
            assert forall|i: int| 0 <= i < self.contexts@.len() implies ctx_view(#[trigger] self.contexts@[i]).len() >= 1 by {
                if i < old(self).contexts@.len() { assert(self.contexts@.drop_last()[i] == old(self).contexts@[i]); }
            }
            let a = sym_outer(*self); let b = sym_outer(*old(self)).push(sym_depth(*old(self)));
            assert(a.len() == b.len());
            assert forall|i: int| 0 <= i < a.len() implies a[i] == b[i] by { assert(self.contexts@.drop_last()[i] == old(self).contexts@[i]); }
            assert(a =~= b);
            let a2 = sym_outer_sizes(*self); let b2 = sym_outer_sizes(*old(self)).push(sym_max_size(*old(self)) as int);
            assert(a2.len() == b2.len());
            assert forall|i: int| 0 <= i < a2.len() implies a2[i] == b2[i] by { assert(self.contexts@.drop_last()[i] == old(self).contexts@[i]); }
            assert(a2 =~= b2);
        }
    }

    /// leaving a function forgets exactly its own context, reports its slot count, and is back in the enclosing
    /// context at the scope depth that context had
    pub fn leave_context(&mut self) -> (n: usize)
        requires sym_wf(*old(self)), sym_contexts(*old(self)) >= 2
        ensures
            sym_max_size(*final(self)) == ctx_max_size(old(self).contexts@[old(self).contexts@.len() - 2]),
            sym_globals_kept(*old(self), *final(self)),
            final(self).contexts@ == old(self).contexts@.drop_last(), n == sym_max_size(*old(self)),
            sym_wf(*final(self)), sym_contexts(*final(self)) == sym_contexts(*old(self)) - 1,
            sym_depth(*final(self)) == sym_outer(*old(self)).last(), sym_outer(*final(self)) == sym_outer(*old(self)).drop_last(),
            sym_max_size(*final(self)) as int == sym_outer_sizes(*old(self)).last(), sym_outer_sizes(*final(self)) == sym_outer_sizes(*old(self)).drop_last(),
    {
//@BODY file=symbols.rs fn=leave_context impl=SymbolTable sig="pub fn leave_context(&mut self) -> usize" rules="R4"
    }

    /// the context declarations and lookups act on: the innermost one
    fn current_context(&mut self) -> (c: &mut Context)
        requires old(self).contexts@.len() >= 1
        ensures *c == old(self).contexts@.last(),
                final(self).contexts@ == old(self).contexts@.drop_last().push(*final(c)),
    {
//@BODY file=symbols.rs fn=current_context impl=SymbolTable sig="fn current_context(&mut self) -> &mut Context" rules="R4"
    }

    pub fn in_function(&self) -> (b: bool)
        ensures b == sym_in_function(*self)
    {
//@BODY file=symbols.rs fn=in_function impl=SymbolTable sig="pub fn in_function(&self) -> bool" rules="R4"
    }

    /// O09.1w  lookup: the CURRENT context first; only if it has no such name, and only when we are inside a
    /// function, the GLOBAL context (index 0) - never the context of an enclosing function (indices 1..len-2).
    /// The table is not changed.
    pub fn resolve(&mut self, name: &str) -> (r: Option<Symbol>)
        requires sym_wf(*old(self))
        ensures
            // O02.slot: a name found in the current context has a slot below the size that context reports
            sym_in_current(*old(self), name@) ==> r is Some && (r->Some_0.index as int) < sym_max_size(*old(self)),
            sym_max_size(*final(self)) == sym_max_size(*old(self)),
            sym_globals_kept(*old(self), *final(self)),
            //@VACUITY
            final(self).contexts@ == old(self).contexts@,
            r == sym_resolve(*old(self), name@),
    {
//@GHOST before="return symbol;" proof { lemma_current_slot_in_range(*old(self), name@); }
//@BODY file=symbols.rs fn=resolve impl=SymbolTable sig="pub fn resolve(&mut self, name: &str) -> Option<Symbol>" rules="R4"
    }

    /// a declaration goes into the innermost scope of the current context only and gets that context's next slot;
    /// a full context refuses it and the table stays as it was
    pub fn define(&mut self, name: &str) -> (r: Result<Symbol, Error>)
        requires sym_wf(*old(self))
        ensures
            // O02.slot: the new slot lies below the size the context reports from now on; the size only grows
            r is Ok ==> (r->Ok_0.index as int) < sym_max_size(*final(self)) && sym_max_size(*final(self)) == sym_max_size(*old(self)) + 1 && sym_in_current(*final(self), name@),
            r is Err ==> sym_max_size(*final(self)) == sym_max_size(*old(self)),
            sym_globals_kept(*old(self), *final(self)),
            //@VACUITY
            sym_others_same(*old(self), *final(self)), sym_wf(*final(self)),
            sym_depth(*final(self)) == sym_depth(*old(self)), sym_contexts(*final(self)) == sym_contexts(*old(self)), sym_outer(*final(self)) == sym_outer(*old(self)), sym_outer_sizes(*final(self)) == sym_outer_sizes(*old(self)),
            r is Ok ==> ctx_after_define(old(self).contexts@.last(), name@, final(self).contexts@.last())
                && r->Ok_0 == sym_define_symbol(*old(self), name@) && sym_params(*final(self)) == sym_params(*old(self)).push(name@),
            r is Err ==> final(self).contexts@ =~= old(self).contexts@,
    {
//@BODY file=symbols.rs fn=define impl=SymbolTable sig="pub fn define(&mut self, name: &str) -> Result<Symbol, Error>" rules="R4"
    }

    /// O09.4s  a block opens ONE empty scope on top of the current context's scopes; nothing else changes
    pub fn enter_scope(&mut self)
        requires sym_wf(*old(self))
        ensures
            sym_max_size(*final(self)) == sym_max_size(*old(self)),
            sym_globals_kept(*old(self), *final(self)),
            //@VACUITY
            sym_others_same(*old(self), *final(self)), sym_wf(*final(self)),
            ctx_view(final(self).contexts@.last()) == ctx_view(old(self).contexts@.last()).push(Seq::<Seq<char>>::empty()),
            final(self).contexts@.last().scope == old(self).contexts@.last().scope, final(self).contexts@.last().max_size == old(self).contexts@.last().max_size,
            sym_depth(*final(self)) == sym_depth(*old(self)) + 1, sym_contexts(*final(self)) == sym_contexts(*old(self)), sym_outer(*final(self)) == sym_outer(*old(self)), sym_outer_sizes(*final(self)) == sym_outer_sizes(*old(self)),
    {
//@BODY file=symbols.rs fn=enter_scope impl=SymbolTable sig="pub fn enter_scope(&mut self)" rules="R4"
        proof {
            let a = ctx_view(self.contexts@.last()); let b = ctx_view(old(self).contexts@.last()).push(Seq::<Seq<char>>::empty());
            assert(a.len() == b.len());
            assert forall|i: int| 0 <= i < a.len() implies a[i] =~= b[i] by {}
            assert(a =~= b);
            lemma_flat_len_push_empty(ctx_view(old(self).contexts@.last()));
            lemma_current_changed(*old(self), *self);
        }
    }

    /// O09.4l  the end of a block closes exactly the innermost scope: the names declared in it are gone, everything
    /// declared outside it is as before
    pub fn leave_scope(&mut self)
        requires sym_wf(*old(self)), sym_depth(*old(self)) >= 2
        ensures
            sym_max_size(*final(self)) == sym_max_size(*old(self)),
            sym_globals_kept(*old(self), *final(self)),
            //@VACUITY
            sym_others_same(*old(self), *final(self)), sym_wf(*final(self)),
            ctx_view(final(self).contexts@.last()) == ctx_view(old(self).contexts@.last()).drop_last(),
            final(self).contexts@.last().scope == old(self).contexts@.last().scope, final(self).contexts@.last().max_size == old(self).contexts@.last().max_size,
            sym_depth(*final(self)) == sym_depth(*old(self)) - 1, sym_contexts(*final(self)) == sym_contexts(*old(self)), sym_outer(*final(self)) == sym_outer(*old(self)), sym_outer_sizes(*final(self)) == sym_outer_sizes(*old(self)),
    {
//@BODY file=symbols.rs fn=leave_scope impl=SymbolTable sig="pub fn leave_scope(&mut self)" rules="R4"
        proof {
            let a = ctx_view(self.contexts@.last()); let b = ctx_view(old(self).contexts@.last()).drop_last();
            assert(a.len() == b.len());
            assert forall|i: int| 0 <= i < a.len() implies a[i] =~= b[i] by {}
            assert(a =~= b);
            lemma_flat_len_drop_last(ctx_view(old(self).contexts@.last()));
            lemma_current_changed(*old(self), *self);
        }
    }

    /// how many names the outermost scope of the global context holds (what a failed compilation rolls back to)
    pub fn global_len(&self) -> (n: usize)
        requires sym_wf(*self)
        ensures n == sym_global_names(*self).len()
    {
//@BODY file=symbols.rs fn=global_len impl=SymbolTable sig="pub fn global_len(&self) -> usize" rules="R4"
    }

    /// O17.sym  after a failed compilation: every function context and every block scope still open is forgotten, and
    /// so is every name beyond the first `keep` of the outermost global scope; those first names stay, with the same slots
    pub fn reset_to_global(&mut self, keep: usize)
        requires sym_wf(*old(self))
        ensures
            //@VACUITY
            final(self).contexts@.len() == 1, ctx_view(final(self).contexts@[0]).len() == 1,
            sym_global_names(*final(self)) =~= sym_global_names(*old(self)).take(if keep <= sym_global_names(*old(self)).len() { keep as int } else { sym_global_names(*old(self)).len() as int }),
            final(self).contexts@[0].scope == old(self).contexts@[0].scope,
            sym_wf(*final(self)), sym_contexts(*final(self)) == 1, sym_depth(*final(self)) == 1,
    {
//@BODY file=symbols.rs fn=reset_to_global impl=SymbolTable sig="pub fn reset_to_global(&mut self, keep: usize)" rules="R4"
        proof {
            let v0 = ctx_view(old(self).contexts@[0]);
            lemma_flat_len_first(v0);
            assert(flat_len(ctx_view(self.contexts@[0])) == ctx_view(self.contexts@[0])[0].len());
        }
    }
}

/// only the current context changed (and it still has a scope): well-formedness and the measures of the enclosing
/// contexts carry over
pub proof fn lemma_current_changed(a: SymbolTable, b: SymbolTable)
    requires sym_wf(a), sym_others_same(a, b), ctx_view(b.contexts@.last()).len() >= 1, ctx_sized(b.contexts@.last()),
             b.contexts@.last().scope == a.contexts@.last().scope
    ensures sym_wf(b), sym_outer(b) == sym_outer(a), sym_outer_sizes(b) == sym_outer_sizes(a), sym_contexts(b) == sym_contexts(a)
{
    if b.contexts@.len() > 1 { assert(b.contexts@.drop_last()[0] == a.contexts@.drop_last()[0]); }
    assert forall|i: int| 0 <= i < b.contexts@.len() implies ctx_view(#[trigger] b.contexts@[i]).len() >= 1 && ctx_sized(b.contexts@[i]) by {
        if i < b.contexts@.len() - 1 { assert(b.contexts@.drop_last()[i] == a.contexts@.drop_last()[i]); }
    }
    let x = sym_outer(b); let y = sym_outer(a);
    assert(x.len() == y.len());
    assert forall|i: int| 0 <= i < x.len() implies x[i] == y[i] by { assert(b.contexts@.drop_last()[i] == a.contexts@.drop_last()[i]); }
    assert(x =~= y);
    let x2 = sym_outer_sizes(b); let y2 = sym_outer_sizes(a);
    assert(x2.len() == y2.len());
    assert forall|i: int| 0 <= i < x2.len() implies x2[i] == y2[i] by { assert(b.contexts@.drop_last()[i] == a.contexts@.drop_last()[i]); }
    assert(x2 =~= y2);
}

/// O09.L5  what a name means at table level (current context, else - inside a function - the globals): a block
/// (enter_scope, any declarations, leave_scope) restores the current context's view, so by the contracts of
/// SymbolTable::resolve above every name resolves as before the block. Stated on views:
pub proof fn lemma_table_block_roundtrip(before: Scopes, decls: Seq<Seq<char>>, name: Seq<char>)
    requires before.len() >= 1
    ensures slot_of(declare_all(before.push(Seq::<Seq<char>>::empty()), decls).drop_last(), name) == slot_of(before, name)
{
    lemma_declare_all_shape(before.push(Seq::<Seq<char>>::empty()), decls);
    assert(before.push(Seq::<Seq<char>>::empty()).drop_last() =~= before);
}
pub open spec fn declare_all(v: Scopes, decls: Seq<Seq<char>>) -> Scopes decreases decls.len() {
    if decls.len() == 0 { v } else { declare(declare_all(v, decls.drop_last()), decls.last()) }
}
pub proof fn lemma_declare_all_shape(v: Scopes, decls: Seq<Seq<char>>)
    requires v.len() >= 1
    ensures declare_all(v, decls).len() == v.len(), declare_all(v, decls).drop_last() =~= v.drop_last()
    decreases decls.len()
{
    if decls.len() > 0 { lemma_declare_all_shape(v, decls.drop_last()); }
}

} // verus!
fn main() {}
