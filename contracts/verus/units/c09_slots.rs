// Unit c09_slots: the compiler arms that turn a NAME into a load / store of its slot (src/compiler.rs), verbatim.
use vstd::prelude::*;
verus! {
//@INCLUDE prelude_object.rs
//@INCLUDE opcodes.rs
//@INCLUDE prelude_compiler.rs
//@INCLUDE compiler_convert_assumed.rs
//@INCLUDE genpost_lemmas.rs

pub open spec fn load_op(s: Scope) -> OpCode { if s == Scope::Global { OpCode::GetGlobal } else { OpCode::GetLocal } }
pub open spec fn store_op(s: Scope) -> OpCode { if s == Scope::Global { OpCode::SetGlobal } else { OpCode::SetLocal } }

impl Compiler {
    /// O09.3a  Expr::Identifier: an unresolved name is a ReferenceError and NOTHING is emitted (so a program that
    /// mentions an undeclared name fails at compile time, before the machine is entered: O09.2); a resolved one
    /// is a load from the opcode family of the symbol's scope with the symbol's slot as operand
    fn arm_identifier(&mut self, name: &String) -> (r: Result<(), Error>)
        requires gen_inv(*old(self))
        ensures
            r is Ok ==> hstep(old(self).height@, final(self).height@, 1),
            //@VACUITY
            sym_wf(final(self).symbols), sym_globals_kept(old(self).symbols, final(self).symbols),
            sym_resolve(old(self).symbols, name@) is None ==> (r matches Err(Error::ReferenceError(_)) && final(self).instructions@ == old(self).instructions@),
            sym_resolve(old(self).symbols, name@) is Some ==> ({
                let sym = sym_resolve(old(self).symbols, name@)->Some_0;
                r is Ok && final(self).instructions@ =~= old(self).instructions@ + seq![opcode_byte(load_op(sym.scope))] + le16(sym.index as int)
            }),
            sym_same(final(self).symbols, old(self).symbols), final(self).loop_contexts == old(self).loop_contexts, gen_inv(*final(self)),
            r is Ok ==> gen_post(*old(self), *final(self), true),
    {
//@GHOST before_all="self.emit_opcode(opcode);" proof { if symbol.scope == Scope::Local { lemma_local_symbol_is_current(self.symbols, name@); if self.locals_bound@ < symbol.index as int + 1 { self.locals_bound = Ghost(symbol.index as int + 1); } } }
//@ARM file=compiler.rs fn=compile_expression impl=Compiler arm="Expr::Identifier" rules="R1;R4"
        proof {
            let n = old(self).instructions@.len() as int;
            assert(self.instructions@ =~= old(self).instructions@ + self.instructions@.subrange(n, n + 3));
            lemma_gen_post_append(*old(self), *self, self.instructions@.subrange(n, n + 3));
        }
        Ok(())
    }

    /// O09.3b  Stmt::Let. A FUNCTION value is bound to a name that is declared first (so that the function can call
    /// itself); for every other initialiser the name is declared AFTER the initialiser has been compiled, so inside
    /// it the name still means the previous declaration (O09.init, fix b048f78). Then a store to exactly the
    /// slot the declaration returned, in the opcode family of the current context.
    fn arm_let(&mut self, name: &String, value: &Expr) -> (r: Result<(), Error>)
        requires gen_inv(*old(self))
        ensures
            r is Ok ==> hstep(old(self).height@, final(self).height@, 0),
            //@VACUITY
            sym_wf(final(self).symbols), sym_globals_kept(old(self).symbols, final(self).symbols),
            r is Ok ==> ({
                let k = old(self).log@.len() as int;
                let code = final(self).instructions@;
                let fnval = *value is Function;
                &&& final(self).log@.len() == k + 1 && final(self).log@[k].what == LogWhat::E(*value) && final(self).log@[k].start == old(self).instructions@.len()
                // O09.init: how many names the current context held when the initialiser was compiled
                &&& final(self).log@[k].names == sym_count(old(self).symbols) + (if fnval { 1int } else { 0int })
                &&& code.len() == final(self).log@[k].end + 3
                &&& (fnval ==> code[final(self).log@[k].end] == opcode_byte(store_op(sym_define_symbol(old(self).symbols, name@).scope))
                        && u16_at(code, final(self).log@[k].end + 1) == sym_define_symbol(old(self).symbols, name@).index)
                // otherwise the declaration is the LAST one of the current context after the statement
                &&& (!fnval ==> code[final(self).log@[k].end] == opcode_byte(store_op(sym_cur_scope(final(self).symbols)))
                        && u16_at(code, final(self).log@[k].end + 1) == ((sym_count(final(self).symbols) - 1) as u16))
            }),
            r is Ok ==> is_prefix(old(self).instructions@, final(self).instructions@),
            r is Ok ==> gen_post(*old(self), *final(self), true),
    {
//@GHOST before="let symbol = if matches!(value, Expr::Function { .. }) {" let ghost mut s0 = *self; let ghost mut s1 = *self;
//@GHOST before_all="self.compile_expression(value)?;" proof { s0 = *self; }
//@GHOST after_all="self.compile_expression(value)?;" proof { s1 = *self; }
//@GHOST before="let op = if symbol.scope == Scope::Global {" let ghost s2 = *self;
//@GHOST before_all="self.emit_opcode(op);" proof { if symbol.scope == Scope::Local && self.locals_bound@ < symbol.index as int + 1 { self.locals_bound = Ghost(symbol.index as int + 1); } }
//@ARM file=compiler.rs fn=compile_statement impl=Compiler arm="Stmt::Let" rules="R1;R4"
        proof {
            let n = s2.instructions@.len() as int;
            assert(self.instructions@ =~= s2.instructions@ + self.instructions@.subrange(n, n + 3));
            lemma_gen_post_append(s2, *self, self.instructions@.subrange(n, n + 3));
            let k = old(self).log@.len() as int;
            if *value is Function {
                lemma_gen_post_same(*old(self), s0);
                lemma_gen_post_trans(*old(self), s0, s1, false, true);
                lemma_declare_takes_over(ctx_view(old(self).symbols.contexts@.last()), name@);
                assert(sym_count(s0.symbols) == sym_count(old(self).symbols) + 1);
                assert(self.log@[k].names == sym_count(s0.symbols));
            } else {
                lemma_gen_post_same(s1, s2);
                lemma_declare_takes_over(ctx_view(s1.symbols.contexts@.last()), name@);
                assert(self.log@[k].names == sym_count(old(self).symbols));
                assert(sym_count(s2.symbols) == sym_count(s1.symbols) + 1);
                assert(symbol.index == (sym_count(s1.symbols) as u16));
                assert(symbol.scope == sym_cur_scope(s2.symbols));
            }
            assert(self.symbols == s2.symbols);
            assert(u16_at(self.instructions@, n + 1) == symbol.index);
            lemma_gen_post_trans(*old(self), s1, s2, true, false);
            lemma_gen_post_trans(*old(self), s2, *self, false, true);
            lemma_gen_post_upgrade(*old(self), *self);
        }
        Ok(())
    }

    /// O09.3c / O10.4  Expr::Assign to a name: unresolved -> ReferenceError, nothing emitted; otherwise the right
    /// side is compiled, then `store slot; load slot` of the SAME slot and family - the expression's value is
    /// exactly the value assigned. Assignment to an element compiles target, index, value in that order.
    fn arm_assign(&mut self, left: &Box<Expr>, right: &Box<Expr>) -> (r: Result<(), Error>)
        requires gen_inv(*old(self))
        ensures
            r is Ok ==> hstep(old(self).height@, final(self).height@, 1),
            //@VACUITY
            sym_wf(final(self).symbols), sym_globals_kept(old(self).symbols, final(self).symbols),
            (**left matches Expr::Identifier(name) && sym_resolve(old(self).symbols, name@) is None) ==> (r matches Err(Error::ReferenceError(_)) && final(self).instructions@ == old(self).instructions@),
            (r is Ok && **left matches Expr::Identifier(name)) ==> ({
                let sym = sym_resolve(old(self).symbols, (**left)->Identifier_0@)->Some_0;
                let k = old(self).log@.len() as int;
                let code = final(self).instructions@;
                let e = final(self).log@[k].end;
                &&& sym_resolve(old(self).symbols, (**left)->Identifier_0@) is Some
                &&& final(self).log@.len() == k + 1 && final(self).log@[k].what == LogWhat::E(**right)
                &&& code.len() == e + 6
                &&& code[e] == opcode_byte(store_op(sym.scope)) && u16_at(code, e + 1) == sym.index
                &&& code[e + 3] == opcode_byte(load_op(sym.scope)) && u16_at(code, e + 4) == sym.index
            }),
            (r is Ok && **left matches Expr::Index { left: target, index }) ==> ({
                let k = old(self).log@.len() as int;
                &&& final(self).log@.len() == k + 3
                &&& final(self).log@[k].what == LogWhat::E(*(**left)->Index_left) && final(self).log@[k + 1].what == LogWhat::E(*(**left)->Index_index) && final(self).log@[k + 2].what == LogWhat::E(**right)
                &&& final(self).instructions@.last() == opcode_byte(OpCode::IndexSet)
            }),
            (!(**left is Identifier) && !(**left is Index)) ==> r is Err,
            r is Ok ==> is_prefix(old(self).instructions@, final(self).instructions@),
            r is Ok ==> gen_post(*old(self), *final(self), true),
    {
//@GHOST after="self.compile_expression(left)?;" let ghost t1 = *self;
//@GHOST after="self.compile_expression(index)?;" let ghost t2 = *self;
//@GHOST after="self.compile_expression(right)?;" let ghost t3 = *self;
//@GHOST after="self.emit_opcode(OpCode::IndexSet);" proof { lemma_gen_post_trans(*old(self), t1, t2, true, true); lemma_gen_post_trans(*old(self), t2, t3, true, true); assert(self.instructions@ =~= t3.instructions@ + seq![opcode_byte(OpCode::IndexSet)]); lemma_gen_post_append(t3, *self, seq![opcode_byte(OpCode::IndexSet)]); lemma_gen_post_trans(*old(self), t3, *self, true, true); }
//@GHOST before="let name = match &**left {" let ghost mut u1 = *self;
//@GHOST before="match symbol.scope {" proof { u1 = *self; }
//@GHOST before_all="self.emit_opcode(OpCode::SetLocal);" proof { if symbol.scope == Scope::Local { lemma_local_symbol_is_current(self.symbols, name@); if self.locals_bound@ < symbol.index as int + 1 { self.locals_bound = Ghost(symbol.index as int + 1); } } }
//@ARM file=compiler.rs fn=compile_expression impl=Compiler arm="Expr::Assign" rules="R1;R4"
        proof {
            // the identifier path (the element path returned above): right-hand side, then store + load = 6 bytes
            let n = u1.instructions@.len() as int;
            assert(self.instructions@ =~= u1.instructions@ + self.instructions@.subrange(n, n + 6));
            lemma_gen_post_append(u1, *self, self.instructions@.subrange(n, n + 6));
            lemma_gen_post_trans(*old(self), u1, *self, true, true);
        }
        Ok(())
    }
}

} // verus!
fn main() {}
