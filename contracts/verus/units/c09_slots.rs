// Unit c09_slots: the compiler arms that turn a NAME into a load / store of its slot (src/compiler.rs), verbatim.
use vstd::prelude::*;
verus! {
//@INCLUDE prelude_object.rs
//@INCLUDE opcodes.rs
//@INCLUDE prelude_compiler.rs
//@INCLUDE compiler_convert_assumed.rs

pub open spec fn load_op(s: Scope) -> OpCode { if s == Scope::Global { OpCode::GetGlobal } else { OpCode::GetLocal } }
pub open spec fn store_op(s: Scope) -> OpCode { if s == Scope::Global { OpCode::SetGlobal } else { OpCode::SetLocal } }

impl Compiler {
    /// O09.3a  Expr::Identifier: an unresolved name is a ReferenceError and NOTHING is emitted (so a program that
    /// mentions an undeclared name fails at compile time, before the machine is entered: O09.2); a resolved one
    /// is a load from the opcode family of the symbol's scope with the symbol's slot as operand
    fn arm_identifier(&mut self, name: &String) -> (r: Result<(), Error>)
        requires gen_inv(*old(self))
        ensures
            //@VACUITY
            sym_resolve(old(self).symbols, name@) is None ==> (r matches Err(Error::ReferenceError(_)) && final(self).instructions@ == old(self).instructions@),
            sym_resolve(old(self).symbols, name@) is Some ==> ({
                let sym = sym_resolve(old(self).symbols, name@)->Some_0;
                r is Ok && final(self).instructions@ =~= old(self).instructions@ + seq![opcode_byte(load_op(sym.scope))] + le16(sym.index as int)
            }),
            final(self).symbols == old(self).symbols, final(self).loop_contexts == old(self).loop_contexts, gen_inv(*final(self)),
    {
//@ARM file=compiler.rs fn=compile_expression impl=Compiler arm="Expr::Identifier" rules="R1;R4"
        Ok(())
    }

    /// O09.3b  Stmt::Let: the name is declared FIRST (so the initialiser of a function value can refer to itself),
    /// then the initialiser is compiled, then a store to exactly the slot that the declaration returned, in the
    /// opcode family of its scope
    fn arm_let(&mut self, name: &String, value: &Expr) -> (r: Result<(), Error>)
        requires gen_inv(*old(self))
        ensures
            //@VACUITY
            r is Ok ==> ({
                let sym = sym_define_symbol(old(self).symbols, name@);
                let k = old(self).log@.len() as int;
                let code = final(self).instructions@;
                &&& final(self).log@.len() == k + 1 && final(self).log@[k].what == LogWhat::E(*value) && final(self).log@[k].start == old(self).instructions@.len()
                &&& code.len() == final(self).log@[k].end + 3
                &&& code[final(self).log@[k].end] == opcode_byte(store_op(sym.scope))
                &&& u16_at(code, final(self).log@[k].end + 1) == sym.index
            }),
            is_prefix(old(self).instructions@, final(self).instructions@),
    {
//@ARM file=compiler.rs fn=compile_statement impl=Compiler arm="Stmt::Let" rules="R1;R4"
        Ok(())
    }

    /// O09.3c / O10.4  Expr::Assign to a name: unresolved -> ReferenceError, nothing emitted; otherwise the right
    /// side is compiled, then `store slot; load slot` of the SAME slot and family - the expression's value is
    /// exactly the value assigned. Assignment to an element compiles target, index, value in that order.
    fn arm_assign(&mut self, left: &Box<Expr>, right: &Box<Expr>) -> (r: Result<(), Error>)
        requires gen_inv(*old(self))
        ensures
            //@VACUITY
            (**left matches Expr::Identifier(name) && sym_resolve(old(self).symbols, name@) is None) ==> (r matches Err(Error::ReferenceError(_)) && final(self).instructions@ == old(self).instructions@),
            (r is Ok && **left matches Expr::Identifier(name)) ==> ({
                let sym = sym_resolve(old(self).symbols, (**left)->Identifier_0@)->Some_0;
                let k = old(self).log@.len() as int;
                let code = final(self).instructions@;
                let e = final(self).log@[k].end;
                &&& sym_resolve(old(self).symbols, (**left)->Identifier_0@) is Some
                &&& final(self).log@.len() == k + 1 && final(self).log@[k].what == LogWhat::E(**right)
                &&& code.len() == e + 6
                &&& code[e] == opcode_byte(store_op(sym.scope)) && u16_at(code, e + 1) == sym.index
                &&& code[e + 3] == opcode_byte(load_op(sym.scope)) && u16_at(code, e + 4) == sym.index
            }),
            (r is Ok && **left matches Expr::Index { left: target, index }) ==> ({
                let k = old(self).log@.len() as int;
                &&& final(self).log@.len() == k + 3
                &&& final(self).log@[k].what == LogWhat::E(*(**left)->Index_left) && final(self).log@[k + 1].what == LogWhat::E(*(**left)->Index_index) && final(self).log@[k + 2].what == LogWhat::E(**right)
                &&& final(self).instructions@.last() == opcode_byte(OpCode::IndexSet)
            }),
            (!(**left is Identifier) && !(**left is Index)) ==> r is Err,
            is_prefix(old(self).instructions@, final(self).instructions@),
    {
//@ARM file=compiler.rs fn=compile_expression impl=Compiler arm="Expr::Assign" rules="R1;R4"
        Ok(())
    }
}

} // verus!
fn main() {}
