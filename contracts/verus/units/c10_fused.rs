// Unit c10_fused: how the compiler chooses between the generic operator sequence and the fused
// variable-op-constant instructions (src/compiler.rs), bodies verbatim.
use vstd::prelude::*;
verus! {
//@INCLUDE prelude_object.rs
//@INCLUDE opcodes.rs
//@INCLUDE prelude_compiler.rs
//@INCLUDE compiler_convert_assumed.rs
//@INCLUDE genpost_lemmas.rs

// operator_sem (meaning of a source operator, property-level table): prelude_compiler.rs

/// code of the fused instruction for `local op constant`
pub open spec fn fused_code(f: OpCode, local_idx: u16, const_idx: int) -> Seq<u8> {
    seq![opcode_byte(f)] + le16(local_idx as int) + le16(const_idx)
}

/// exactly one fused instruction with meaning `sem` has been appended for (local slot of `name`, constant `value`)
pub open spec fn fused_emitted(pre: Compiler, post: Compiler, name: Seq<char>, value: int, sem: int) -> bool {
    let sym = sym_resolve(pre.symbols, name);
    let n = pre.instructions@.len() as int;
    let f = post.last_instruction->Some_0;
    let ci = u16_at(post.instructions@, n + 3);
    &&& sym is Some && sym->Some_0.scope == Scope::Local
    &&& MIN_INT <= value <= MAX_INT
    &&& post.last_instruction is Some
    &&& fused_sem(f) == sem && sem != op_none()
    &&& post.instructions@ =~= pre.instructions@ + fused_code(f, sym->Some_0.index, ci)
    &&& 0 <= ci < post.constants@.len()
    &&& spec_tag(post.constants@[ci]) == Type::Int && spec_int(post.constants@[ci]) == value
}

//@ASSUMES unit=c10_mirror.rs fn=mirror_operator full=1

impl Compiler {
    /// O10.3b  source `varname operator const_value` (VARIABLE ON THE LEFT): either exactly one fused instruction
    /// is appended whose meaning (table fused_sem, proved for the machine in unit c02_arms) is the operator's
    /// meaning, applied to (the variable's local slot, a constant slot holding const_value) - or nothing at all
    /// is appended and an error tells the caller to use the generic sequence.
    fn compile_const_var_infix_expression(&mut self, varname: &str, const_value: isize, operator: &Operator) -> (r: Result<(), Error>)
        requires sym_wf(old(self).symbols), hcovers(old(self).height@, 0)
        ensures
            sym_same(final(self).symbols, old(self).symbols),
            //@VACUITY
            r is Err ==> final(self).instructions@ == old(self).instructions@ && final(self).last_instruction == old(self).last_instruction,
            r is Ok ==> fused_emitted(*old(self), *final(self), varname@, const_value as int, operator_sem(*operator)),
            // static height: a fused instruction pushes exactly one value; a failed attempt emits nothing
            r is Ok ==> final(self).height@ == hplus(old(self).height@, 1),
            r is Err ==> final(self).height@ == old(self).height@,
            r is Err ==> final(self).locals_bound@ == old(self).locals_bound@,
            sym_resolve(old(self).symbols, varname@) is None ==> r is Err,
            gen_inv(*old(self)) ==> gen_inv(*final(self)),
            sym_same(final(self).symbols, old(self).symbols), final(self).loop_contexts == old(self).loop_contexts, final(self).log@ == old(self).log@, final(self).loop_h@ == old(self).loop_h@, final(self).locals_bound@ >= old(self).locals_bound@,
            old(self).constants@.len() <= final(self).constants@.len(),
            forall|i: int| 0 <= i < old(self).constants@.len() ==> final(self).constants@[i] == old(self).constants@[i],
    {
//@GHOST before_all="self.emit_opcode(opcode);" proof { if symbol.scope == Scope::Local { lemma_local_symbol_is_current(self.symbols, varname@); if self.locals_bound@ < symbol.index as int + 1 { self.locals_bound = Ghost(symbol.index as int + 1); } } }
//@BODY file=compiler.rs fn=compile_const_var_infix_expression impl=Compiler sig="fn compile_const_var_infix_expression(&mut self, varname: &str, const_value: isize, operator: &Operator) -> Result<(), Error>" rules="R1;R4"
    }
}

impl Compiler {
    /// compile_operator: one opcode byte whose machine meaning (table generic_sem, proved in unit c02_arms) is
    /// the source operator's meaning. requires: a binary or prefix operator (the parser never builds an
    /// Infix/Prefix node with Operator::Assign - assumption on the tree, listed in the evidence)
    fn compile_operator(&mut self, operator: &Operator)
        requires *operator != Operator::Assign,
                 // the operands are on the (static) stack: two for a binary operator, one for a prefix operator
                 hcovers(old(self).height@, if operator_sem(*operator) != op_none() { 2int } else { 1int })
        ensures
            //@VACUITY
            final(self).last_instruction is Some,
            final(self).instructions@ == old(self).instructions@.push(opcode_byte(final(self).last_instruction->Some_0)),
            operator_sem(*operator) != op_none() ==> generic_sem(final(self).last_instruction->Some_0) == operator_sem(*operator),
            *operator == Operator::Not ==> final(self).last_instruction == Some(OpCode::Not),
            *operator == Operator::Negate ==> final(self).last_instruction == Some(OpCode::Negate),
            same_but_code(*old(self), *final(self)),
            // static height: a binary operator replaces two values by one, a prefix operator one by one
            final(self).height@ == hplus(old(self).height@, if operator_sem(*operator) != op_none() { -1int } else { 0int }),
    {
//@BODY file=compiler.rs fn=compile_operator impl=Compiler sig="fn compile_operator(&mut self, operator: &Operator)" rules="R1p;R4"
    }

    /// O10.3c  the Expr::Infix arm. For source `l op r`:
    ///  * a fused instruction is used only when the operands are (variable, integer literal) - then with the
    ///    operator's own meaning - or (integer literal, variable) - then with the MIRRORED meaning, so that
    ///    fused(local = variable, const = literal) == op(literal, variable); never for - / % with the literal left;
    ///  * otherwise the code of l, then the code of r (ghost log: in that order), then one opcode byte whose
    ///    machine meaning is the operator's meaning.
    fn arm_infix(&mut self, left: &Box<Expr>, operator: &Operator, right: &Box<Expr>) -> (r: Result<(), Error>)
        requires gen_inv(*old(self)), operator_sem(*operator) != op_none()
        ensures
            r is Ok ==> hstep(old(self).height@, final(self).height@, 1),
            //@VACUITY
            sym_wf(final(self).symbols), sym_globals_kept(old(self).symbols, final(self).symbols),
            r is Ok ==> ({
                let fused_lr = match (**left, **right) {
                    (Expr::Identifier(name), Expr::Int { value }) => fused_emitted(*old(self), *final(self), name@, value as int, operator_sem(*operator)),
                    _ => false,
                };
                let fused_rl = match (**left, **right) {
                    (Expr::Int { value }, Expr::Identifier(name)) => mirror_sem(operator_sem(*operator)) != op_none()
                        && fused_emitted(*old(self), *final(self), name@, value as int, mirror_sem(operator_sem(*operator))),
                    _ => false,
                };
                let generic = {
                    &&& final(self).log@.len() == old(self).log@.len() + 2
                    &&& final(self).log@[old(self).log@.len() as int].what == LogWhat::E(**left)
                    &&& final(self).log@[old(self).log@.len() as int + 1].what == LogWhat::E(**right)
                    &&& final(self).log@[old(self).log@.len() as int].end == final(self).log@[old(self).log@.len() as int + 1].start
                    &&& final(self).last_instruction is Some
                    &&& generic_sem(final(self).last_instruction->Some_0) == operator_sem(*operator)
                    &&& final(self).instructions@.len() > old(self).instructions@.len() + 2
                    &&& final(self).instructions@.last() == opcode_byte(final(self).last_instruction->Some_0)
                    &&& is_prefix(old(self).instructions@, final(self).instructions@)
                };
                (fused_lr && final(self).log@ == old(self).log@) || (fused_rl && final(self).log@ == old(self).log@) || generic
            }),
            r is Ok ==> peephole_inv(*final(self)), r is Ok ==> is_prefix(old(self).instructions@, final(self).instructions@),
            r is Ok ==> final(self).loop_contexts@.len() == old(self).loop_contexts@.len(),
            r is Ok ==> gen_post(*old(self), *final(self), true),
    {
//@GHOST before_all="return res;" proof { let n = old(self).instructions@.len() as int; assert(self.instructions@ =~= old(self).instructions@ + self.instructions@.subrange(n, n + 5)); lemma_gen_post_append(*old(self), *self, self.instructions@.subrange(n, n + 5)); }
//@GHOST before="self.compile_expression(left)?;" let ghost s0 = *self;
//@GHOST after="self.compile_expression(left)?;" let ghost s1 = *self;
//@GHOST after="self.compile_expression(right)?;" let ghost s2 = *self;
//@ARM file=compiler.rs fn=compile_expression impl=Compiler arm="Expr::Infix" rules="R1;R4"
        proof {
            lemma_gen_post_same(*old(self), s0);
            lemma_gen_post_trans(*old(self), s0, s1, false, true);
            lemma_gen_post_trans(*old(self), s1, s2, false, true);
            assert(self.instructions@ =~= s2.instructions@ + seq![self.instructions@.last()]);
            lemma_gen_post_append(s2, *self, seq![self.instructions@.last()]);
            lemma_gen_post_trans(*old(self), s2, *self, false, true);
            lemma_gen_post_upgrade(*old(self), *self);
        }
        Ok(())
    }
}

} // verus!
fn main() {}
