// Unit c10_mirror: the mirror table of the compiler (src/compiler.rs mirror_operator, body verbatim) and the mirror law.
// Kept apart from unit c10_fused so that the Infix arm stays decidable when this helper is renamed, inlined or removed.
use vstd::prelude::*;
verus! {
//@INCLUDE prelude_object.rs
//@INCLUDE opcodes.rs
//@INCLUDE prelude_compiler.rs

/// what each operator computes on two in-range integers, as mathematical integers / truth values encoded 0/1
/// (this is exactly the content of the C06 contracts O06.1, O06.2 (Verus) and O06.3 (Kani))
pub open spec fn int_sem(op: int, a: int, b: int) -> int {
    if op == op_add() { a + b } else if op == op_sub() { a - b } else if op == op_mul() { a * b }
    else if op == op_lt() { if a < b { 1 } else { 0 } } else if op == op_lte() { if a <= b { 1 } else { 0 } }
    else if op == op_gt() { if a > b { 1 } else { 0 } } else if op == op_gte() { if a >= b { 1 } else { 0 } }
    else if op == op_eq() { if a == b { 1 } else { 0 } } else if op == op_neq() { if a != b { 1 } else { 0 } }
    else { 0 }
}
/// O10.3m  mirror law: whenever the table gives a mirror, op(a, b) == mirror(op)(b, a) for ALL integers
pub proof fn lemma_mirror(op: int, a: int, b: int)
    requires mirror_sem(op) != op_none()
    ensures int_sem(op, a, b) == int_sem(mirror_sem(op), b, a)
{
    assert(a * b == b * a) by (nonlinear_arith);
}

/// O10.3a  mirror_operator answers exactly the mirror table of the property statement (a op b == b op' a) and
/// refuses the operators that have no mirror (- / % && ||)
fn mirror_operator(operator: &Operator) -> (r: Option<Operator>)
    ensures
        //@VACUITY
        mirror_sem(operator_sem(*operator)) != op_none() ==> (r is Some && operator_sem(r->Some_0) == mirror_sem(operator_sem(*operator))),
        mirror_sem(operator_sem(*operator)) == op_none() ==> r is None,
{
//@BODY file=compiler.rs fn=mirror_operator sig="fn mirror_operator(operator: &Operator) -> Option<Operator>" rules="R4"
}


} // verus!
fn main() {}
