// Unit c11_control: jump emission and patching in the compiler (src/compiler.rs): to_u16/to_u8,
// last_instruction_is, remove_last_instruction, and the arms Stmt::Break, Stmt::Continue, Expr::If, Expr::While.
use vstd::prelude::*;
verus! {
//@INCLUDE prelude_object.rs
//@INCLUDE opcodes.rs
//@INCLUDE prelude_compiler.rs
//@INCLUDE genpost_lemmas.rs

pub open spec fn byte_jump() -> u8 { opcode_byte(OpCode::Jump) }
pub open spec fn byte_jif() -> u8 { opcode_byte(OpCode::JumpIfFalse) }

/// contract-consistency lemmas: the DERIVED clauses on the assumed emit helpers follow from their primary clauses
pub proof fn lemma_emit_opcode_inv(pre: Compiler, post: Compiler, op: OpCode)
    requires gen_inv(pre), post.instructions@ == pre.instructions@.push(opcode_byte(op)), post.last_instruction == Some(op), same_but_code(pre, post),
             post.height@ == (if op_ends_flow(op) { H::Dead } else { hplus(pre.height@, op_delta(op)) }),
             hcovers(pre.height@, op_needs(op)),
    ensures gen_inv(post)
{}
pub proof fn lemma_emit_operand_inv(pre: Compiler, post: Compiler, extra: Seq<u8>)
    requires gen_inv(pre), !(pre.last_instruction is Some && no_operand_tail(pre.last_instruction->Some_0)), post.instructions@ == pre.instructions@ + extra, post.last_instruction == pre.last_instruction, same_but_code(pre, post), post.height@ == pre.height@
    ensures gen_inv(post)
{}

fn to_u16(value: usize) -> (r: Result<u16, Error>)
    ensures
        //@VACUITY
        value <= 0xFFFF ==> r == Ok::<u16, Error>(value as u16), value > 0xFFFF ==> r is Err
{
//@BODY file=compiler.rs fn=to_u16 sig="fn to_u16(value: usize) -> Result<u16, Error>" rules="R1;R3[u16::MAX as usize=>0xFFFFusize]"
}
fn to_u8(value: usize) -> (r: Result<u8, Error>)
    ensures
        //@VACUITY
        value <= 0xFF ==> r == Ok::<u8, Error>(value as u8), value > 0xFF ==> r is Err
{
//@BODY file=compiler.rs fn=to_u8 sig="fn to_u8(value: usize) -> Result<u8, Error>" rules="R1;R3[u8::MAX as usize=>0xFFusize]"
}

/// number of ghost-log entries a block contributes (one per statement; an empty block is a bare Null)
pub open spec fn blen(b: Seq<Stmt>) -> int { b.len() as int }
/// the statements of block `b` are the log entries [from, from + |b|), in order, back to back, starting at code offset `start`
pub open spec fn block_logged(log: Seq<LogEntry>, from: int, b: Seq<Stmt>, start: int) -> bool {
    &&& (forall|j: int| 0 <= j < b.len() ==> #[trigger] log[from + j].what == LogWhat::S(b[j]))
    &&& (b.len() > 0 ==> log[from].start == start)
    &&& (forall|j: int| 0 <= j < b.len() - 1 ==> #[trigger] log[from + j].end == log[from + j + 1].start)
}
/// code offset at which block `b` (logged from `from`, emitted from `start`) ends - before any peephole
pub open spec fn block_end(log: Seq<LogEntry>, from: int, b: Seq<Stmt>, start: int) -> int {
    if b.len() == 0 { start + 1 } else { log[from + b.len() - 1].end }
}
/// the sub-trees of an `als` are compiled in source order, the condition first, each exactly once:
/// condition, 3 bytes of JumpIfFalse, the consequence's statements, [the alternative's statements]
pub open spec fn if_log(pre: Compiler, post: Compiler, condition: Expr, consequence: Seq<Stmt>, alternative: Option<Vec<Stmt>>) -> bool {
    let k = pre.log@.len() as int;
    let alt = if alternative is Some { alternative->Some_0@ } else { Seq::<Stmt>::empty() };
    &&& post.log@.len() == k + 1 + blen(consequence) + blen(alt)
    &&& post.log@[k].what == LogWhat::E(condition) && post.log@[k].start == pre.instructions@.len()
    &&& block_logged(post.log@, k + 1, consequence, post.log@[k].end + 3)
}
/// the two jumps of an `als` and their patched operands
pub open spec fn if_jumps(pre: Compiler, post: Compiler, consequence: Seq<Stmt>, alternative: Option<Vec<Stmt>>) -> bool {
    let k = pre.log@.len() as int;
    let code = post.instructions@;
    let pjif = post.log@[k].end;          // JumpIfFalse right after the condition code
    let cons_end = block_end(post.log@, k + 1, consequence, pjif + 3);
    let alt = if alternative is Some { alternative->Some_0@ } else { Seq::<Stmt>::empty() };
    &&& 0 <= pjif && pjif + 3 <= code.len() && code[pjif] == byte_jif()
    // (the consequence is compiled as a VALUE: its trailing Pop dropped, or a Null appended, or - empty - its one Null)
    &&& exists|pj: int| #![trigger code[pj]] (pj == cons_end || pj == cons_end - 1 || pj == cons_end + 1) && pjif + 3 <= pj && pj + 3 <= code.len()
            && code[pj] == byte_jump()
            && u16_at(code, pjif + 1) == pj + 3
            && u16_at(code, pj + 1) == code.len()
            && (alternative is Some ==> block_logged(post.log@, k + 1 + blen(consequence), alt, pj + 3))
            && (alternative is None ==> code.len() == pj + 4 && code[pj + 3] == opcode_byte(OpCode::Null))
}

impl LoopContext {
    fn new(start: usize) -> (c: Self) ensures c.start == start, c.break_instructions@.len() == 0
    {
//@BODY file=compiler.rs fn=new impl=LoopContext sig="fn new(start: usize) -> Self" rules="R4"
    }
}

/// Expr::If: condition; JumpIfFalse placeholder; consequence as a value; Jump placeholder; patch; alternative as a
/// value (or the Null that stands for it); patch  ==> the whole arm behaves like a generator (gen_post).
pub proof fn lemma_if_gen_post(a: Compiler, s_cond: Compiler, e1: Compiler, s_cons: Compiler, e2: Compiler,
                               s_mid: Compiler, s_pre: Compiler, fin: Compiler, has_alt: bool)
    requires
        gen_post(a, s_cond, true),
        step_appended(s_cond, e1, 3),
        gen_post(e1, s_cons, false),
        step_appended(s_cons, e2, 3), e2.last_instruction == Some(OpCode::Jump),
        step_patched(e2, s_mid, s_cond.instructions@.len() as int),
        has_alt ==> gen_post(s_mid, s_pre, false),
        !has_alt ==> step_appended(s_mid, s_pre, 1),
        step_patched(s_pre, fin, s_cons.instructions@.len() as int),
        // a block value never ends in a removable Pop / ReturnValue (block_value_post)
        s_cons.last_instruction is None || s_cons.last_instruction == Some(OpCode::Null),
        s_pre.last_instruction is None || s_pre.last_instruction == Some(OpCode::Null),
        hcovers(s_mid.height@, 0), hcovers(fin.height@, 0),
        sym_depth(fin.symbols) == sym_depth(a.symbols), sym_contexts(fin.symbols) == sym_contexts(a.symbols), sym_outer(fin.symbols) == sym_outer(a.symbols), sym_outer_sizes(fin.symbols) == sym_outer_sizes(a.symbols),
    ensures gen_post(a, fin, true)
{
    let nl = a.loop_contexts@.len() as int;
    let pjif = s_cond.instructions@.len() as int;
    let pj = s_cons.instructions@.len() as int;
    // condition, then the JumpIfFalse placeholder
    lemma_step_appended(s_cond, e1, 3);
    lemma_gen_post_trans(a, s_cond, e1, true, true);
    // consequence value, the Jump placeholder
    lemma_gen_post_trans(a, e1, s_cons, true, false);
    lemma_step_appended(s_cons, e2, 3);
    lemma_gen_post_trans(a, s_cons, e2, false, true);
    // pending stops recorded so far lie inside the condition (before pjif) or inside the consequence (from pjif+3,
    // clear of the Jump at pj)
    if nl > 0 {
        let b0 = breaks(a, nl - 1); let bc = breaks(s_cond, nl - 1); let bk = breaks(s_cons, nl - 1);
        assert(breaks(e2, nl - 1) == bk && breaks(e1, nl - 1) == bc);
        assert forall|j: int| b0.len() <= j < bk.len() implies
            ((#[trigger] bk[j]) + 3 <= pjif || (pjif + 3 <= bk[j] && bk[j] + 3 <= pj)) by {
            if j < bc.len() {
                assert(bk.subrange(0, bc.len() as int)[j] == bc[j]);
                assert(break_ok(s_cond, bc[j] as int));
            } else {
                assert(break_ok(s_cons, bk[j] as int));
            }
        }
    }
    assert(new_breaks_clear_of(a, e2, pjif));
    lemma_gen_post_patch(a, e2, s_mid, pjif, s_mid.instructions@[pjif + 1], s_mid.instructions@[pjif + 2], false);
    // alternative value (or the Null that stands for it)
    if has_alt {
        lemma_gen_post_trans(a, s_mid, s_pre, false, false);
    } else {
        lemma_step_appended(s_mid, s_pre, 1);
        lemma_gen_post_trans(a, s_mid, s_pre, false, true);
    }
    assert(gen_post(a, s_pre, false));
    // the final patch of the Jump at pj: every pending stop is before it or after it
    if nl > 0 {
        let b0 = breaks(a, nl - 1); let bk = breaks(s_cons, nl - 1); let bp = breaks(s_pre, nl - 1);
        assert(breaks(s_mid, nl - 1) == bk);
        assert forall|j: int| b0.len() <= j < bp.len() implies (#[trigger] bp[j]) + 3 <= pj || pj + 3 <= bp[j] by {
            if j < bk.len() {
                if has_alt { assert(bp.subrange(0, bk.len() as int)[j] == bk[j]); }
                assert(bp[j] == bk[j]);
            } else {
                assert(has_alt);
                assert(bp[j] >= s_mid.instructions@.len());
            }
        }
    }
    assert(new_breaks_clear_of(a, s_pre, pj));
    lemma_gen_post_patch(a, s_pre, fin, pj, fin.instructions@[pj + 1], fin.instructions@[pj + 2], false);
    lemma_gen_post_upgrade(a, fin);
}

impl Compiler {
    fn last_instruction_is(&self, op: OpCode) -> (b: bool)
        ensures b == (self.last_instruction == Some(op))
    {
//@BODY file=compiler.rs fn=last_instruction_is impl=Compiler sig="fn last_instruction_is(&self, op: OpCode) -> bool" rules="R4"
    }

    /// the peephole: drops the last byte. Safe (removes exactly the remembered Pop, touches no jump) under gen_inv
    fn remove_last_instruction(&mut self)
        requires old(self).last_instruction == Some(OpCode::Pop), gen_inv(*old(self))
        ensures
            //@VACUITY
            final(self).instructions@ == old(self).instructions@.drop_last(), final(self).last_instruction is None,
            same_but_code(*old(self), *final(self)), gen_inv(*final(self)),
            // GHOST instrumentation: the removed instruction is the remembered Pop - its effect on the height is undone
            final(self).height@ == hplus(old(self).height@, 1),
    {
//@GHOST after="self.last_instruction = None;" proof { self.height = Ghost(hplus(self.height@, 1)); }
//@BODY file=compiler.rs fn=remove_last_instruction impl=Compiler sig="fn remove_last_instruction(&mut self)" rules="R4;R4d"
    }

    /// O11.3  Stmt::Break: outside a loop -> SyntaxError and NOTHING has been emitted; inside a loop -> exactly
    /// `Null; Jump <placeholder>` is appended and the Jump's position is recorded in the INNERMOST loop context only
    fn arm_break(&mut self) -> (r: Result<(), Error>)
        requires gen_inv(*old(self))
        ensures
            r is Ok ==> hstep(old(self).height@, final(self).height@, 0),
            //@VACUITY
            sym_wf(final(self).symbols), sym_globals_kept(old(self).symbols, final(self).symbols),
            old(self).loop_contexts@.len() == 0 ==> (r matches Err(Error::SyntaxError(_)) && final(self).instructions@ == old(self).instructions@ && final(self).loop_contexts@.len() == 0),
            old(self).loop_contexts@.len() > 0 ==> ({
                let n = old(self).instructions@.len() as int;
                let last = old(self).loop_contexts@.len() - 1;
                &&& r is Ok
                &&& final(self).instructions@ =~= old(self).instructions@ + seq![opcode_byte(OpCode::Null), byte_jump()] + le16(JUMP_PLACEHOLDER as int)
                &&& final(self).loop_contexts@.len() == old(self).loop_contexts@.len()
                &&& final(self).loop_contexts@[last].start == old(self).loop_contexts@[last].start
                &&& final(self).loop_contexts@[last].break_instructions@ == old(self).loop_contexts@[last].break_instructions@.push((n + 1) as usize)
                &&& (forall|i: int| 0 <= i < last ==> final(self).loop_contexts@[i] == old(self).loop_contexts@[i])
            }),
            r is Ok ==> gen_post(*old(self), *final(self), true),
    {
//@ARM file=compiler.rs fn=compile_statement impl=Compiler arm="Stmt::Break" rules="R1;R4"
        proof {
            let n = old(self).loop_contexts@.len() as int;
            let n0 = old(self).instructions@.len() as int;
            assert(self.instructions@ =~= old(self).instructions@ + seq![opcode_byte(OpCode::Null), byte_jump()] + le16(JUMP_PLACEHOLDER as int));
            assert(breaks(*self, n - 1).subrange(0, breaks(*old(self), n - 1).len() as int) =~= breaks(*old(self), n - 1));
            assert(break_ok(*self, n0 + 1));
            assert forall|i: int| 0 <= i < n - 1 implies #[trigger] breaks(*self, i) == breaks(*old(self), i) by { assert(self.loop_contexts@[i] == old(self).loop_contexts@[i]); }
        }
        Ok(())
    }

    /// O11.3  Stmt::Continue: outside a loop -> SyntaxError, nothing emitted; inside -> `Null; Jump <start of the
    /// INNERMOST loop's condition>`; no loop context changes
    fn arm_continue(&mut self) -> (r: Result<(), Error>)
        requires gen_inv(*old(self))
        ensures
            r is Ok ==> hstep(old(self).height@, final(self).height@, 0),
            //@VACUITY
            sym_wf(final(self).symbols), sym_globals_kept(old(self).symbols, final(self).symbols),
            old(self).loop_contexts@.len() == 0 ==> (r matches Err(Error::SyntaxError(_)) && final(self).instructions@ == old(self).instructions@),
            (old(self).loop_contexts@.len() > 0 && old(self).loop_contexts@.last().start <= 0xFFFF) ==> (r is Ok
                && final(self).instructions@ =~= old(self).instructions@ + seq![opcode_byte(OpCode::Null), byte_jump()] + le16(old(self).loop_contexts@.last().start as int)),
            final(self).loop_contexts == old(self).loop_contexts,
            r is Ok ==> gen_post(*old(self), *final(self), true),
    {
//@ARM file=compiler.rs fn=compile_statement impl=Compiler arm="Stmt::Continue" rules="R1;R4;R12"
        proof {
            let n0 = old(self).instructions@.len() as int;
            assert(self.instructions@ =~= old(self).instructions@ + self.instructions@.subrange(n0, n0 + 4));
            lemma_gen_post_append(*old(self), *self, self.instructions@.subrange(n0, n0 + 4));
        }
        Ok(())
    }

    /// O11.1  Expr::If. Positions are read off the ghost log: entry k is the condition, then one entry per statement
    /// of the consequence, then one per statement of the alternative (if any). After the arm:
    ///  * a JumpIfFalse sits right after the condition code and its operand is the first byte AFTER the Jump that
    ///    ends the consequence, i.e. the start of the alternative (or of the Null that stands for a missing one);
    ///  * that Jump's operand is the end of the whole expression;
    ///  * no placeholder is left; nothing emitted before the arm is touched.
    fn arm_if(&mut self, condition: &Box<Expr>, consequence: &Vec<Stmt>, alternative: &Option<Vec<Stmt>>) -> (r: Result<(), Error>)
        requires gen_inv(*old(self))
        ensures
            r is Ok ==> hstep(old(self).height@, final(self).height@, 1),
            //@VACUITY
            sym_wf(final(self).symbols), sym_globals_kept(old(self).symbols, final(self).symbols),
            r is Ok ==> is_prefix(old(self).instructions@, final(self).instructions@),
            r is Ok ==> final(self).loop_contexts@.len() == old(self).loop_contexts@.len(),
            r is Ok ==> if_log(*old(self), *final(self), **condition, consequence@, *alternative),
            r is Ok ==> if_jumps(*old(self), *final(self), consequence@, *alternative),
            r is Ok ==> final(self).instructions@.len() <= 0xFFFF,
            r is Ok ==> gen_post(*old(self), *final(self), true),
    {
//@GHOST after="self.compile_expression(condition)?;" let ghost s_cond = *self;
//@GHOST before="self.compile_block_value(consequence)?;" let ghost e1 = *self;
//@GHOST after="self.compile_block_value(consequence)?;" let ghost s_cons = *self;
//@GHOST before="self.change_jump_operand_at(pos_jump_if_false, to_u16(self.instructions.len())?);" let ghost e2 = *self;
//@GHOST after="self.change_jump_operand_at(pos_jump_if_false, to_u16(self.instructions.len())?);" proof { /* the JumpIfFalse lands HERE: its flow (height right after the condition was popped) joins */ self.height = Ghost(hjoin(self.height@, e1.height@)); } let ghost s_mid = *self;
//@GHOST before="self.change_jump_operand_at(pos_jump, to_u16(self.instructions.len())?);" let ghost s_pre = *self;
//@ARM file=compiler.rs fn=compile_expression impl=Compiler arm="Expr::If" rules="R1;R4"
        proof {
            // ghost hints only (erased): the witness for the Jump position is the arm's own local `pos_jump`; the
            // log entries of the consequence are unchanged by what is emitted after it
            let code = self.instructions@;
            let pj = pos_jump as int;
            let k = old(self).log@.len() as int;
            let m = blen(consequence@);
            assert(s_cond.log@.len() == k + 1 && s_cond.log@[k].what == LogWhat::E(**condition));
            assert(s_cons.log@.len() == k + 1 + m);
            assert(s_mid.log@ == s_cons.log@);
            assert forall|i: int| 0 <= i < k + 1 + m implies self.log@[i] == s_cons.log@[i] by {}
            assert forall|i: int| 0 <= i < k + 1 implies s_cons.log@[i] == s_cond.log@[i] by {}
            assert(block_logged(self.log@, k + 1, consequence@, pos_jump_if_false as int + 3)) by {
                assert forall|j: int| 0 <= j < m implies #[trigger] self.log@[k + 1 + j].what == LogWhat::S(consequence@[j]) by { assert(s_cons.log@[(k + 1) + j].what == LogWhat::S(consequence@[j])); }
                assert forall|j: int| 0 <= j < m - 1 implies #[trigger] self.log@[k + 1 + j].end == self.log@[k + 1 + j + 1].start by { assert(s_cons.log@[(k + 1) + j].end == s_cons.log@[(k + 1) + j + 1].start); }
            }
            assert(pj == block_end(self.log@, k + 1, consequence@, pos_jump_if_false as int + 3) || pj == block_end(self.log@, k + 1, consequence@, pos_jump_if_false as int + 3) - 1
                || pj == block_end(self.log@, k + 1, consequence@, pos_jump_if_false as int + 3) + 1);
            assert(code[pj] == byte_jump());
            assert(u16_at(code, pos_jump_if_false as int + 1) == pj + 3);
            assert(u16_at(code, pj + 1) == code.len());

            // ---- the arm meets the generator contract it assumes of its callees (gen_post) ----
            lemma_if_gen_post(*old(self), s_cond, e1, s_cons, e2, s_mid, s_pre, *self, alternative is Some);
            // the Jump that ends the consequence lands HERE: its flow (height with the consequence's value) joins
            let ghost s_fin = *self;
            self.height = Ghost(hjoin(self.height@, s_cons.height@));
            lemma_gen_post_ghost(*old(self), s_fin, *self, true);
        }
        Ok(())
    }

    /// O11.2  Expr::While. Layout after the arm (n0 = code length before):
    ///   n0: Null | n0+1: condition code | pc: JumpIfFalse <exit> | pc+3: Pop | pc+4: body ... | len-3: Jump <n0+1>
    ///  * the back jump targets the first byte of the condition; the JumpIfFalse targets the first byte AFTER the loop;
    ///  * every `stop` recorded in the context this arm pushed is patched to the first byte after the loop
    ///    (ghost log entry Stops(..) is that list); the context is popped again, so enclosing loops' contexts are
    ///    exactly as before: stop / volgende inside the body can only have acted on THIS loop.
    fn arm_while(&mut self, condition: &Box<Expr>, body: &Vec<Stmt>) -> (r: Result<(), Error>)
        requires gen_inv(*old(self))
        ensures
            r is Ok ==> hstep(old(self).height@, final(self).height@, 1),
            //@VACUITY
            sym_wf(final(self).symbols), sym_globals_kept(old(self).symbols, final(self).symbols),
            r is Ok ==> is_prefix(old(self).instructions@, final(self).instructions@),
            r is Ok ==> while_post(*old(self), *final(self), **condition, body@),
            r is Ok ==> gen_post(*old(self), *final(self), true),
    {
//@GHOST after="LoopContext::new(self.instructions.len()));" proof { /* what this loop expects at its start label and at its exit: the height with the loop value on top */ self.loop_h = Ghost(self.loop_h@.push(self.height@)); } let ghost s0 = *self;
//@GHOST after="self.compile_expression(condition)?;" let ghost s_cond = *self;
//@GHOST after="let ip = __v[__k];" proof { assert(ip == stops[__k as int]); assert(stop_final(*self, n0, pc, len_final, stops[__k as int] as int)); }
//@GHOST before="self.emit_opcode(OpCode::Pop);" let ghost h_exit = self.height@;
//@GHOST after="self.emit_opcode(OpCode::Pop);" let ghost s_pre = *self;
//@GHOST after="self.compile_block_value(body)?;" let ghost s_body = *self; proof { let m = s_body.loop_contexts@.len() - 1; assert(m == old(self).loop_contexts@.len()); assert(breaks(s_pre, m) == breaks(s_cond, m)); assert(s_pre.instructions@.len() == pos_jump_if_false + 4); assert forall|j: int| 0 <= j < breaks(s_body, m).len() implies stop_ok(s_body, old(self).instructions@.len() as int, pos_jump_if_false as int, #[trigger] breaks(s_body, m)[j] as int) by { let b0 = breaks(s_pre, m); let b1 = breaks(s_body, m); if j < b0.len() { assert(b1.subrange(0, b0.len() as int)[j] == b0[j]); assert(break_ok(s_cond, b0[j] as int)); assert(s_pre.instructions@[b0[j] as int] == s_cond.instructions@[b0[j] as int]); } else { assert(break_ok(s_body, b1[j] as int)); } } assert forall|j: int, k: int| 0 <= j < k < breaks(s_body, m).len() implies #[trigger] breaks(s_body, m)[j] + 3 <= #[trigger] breaks(s_body, m)[k] by { let b0 = breaks(s_pre, m); let b1 = breaks(s_body, m); if j < b0.len() { assert(b1.subrange(0, b0.len() as int)[j] == b0[j]); assert(break_ok(s_cond, b0[j] as int)); if k < b0.len() { assert(b1.subrange(0, b0.len() as int)[k] == b0[k]); } } } }
//@GHOST after="self.emit_u16(to_u16(pos_before_condition)?);" let ghost s_jump = *self;
//@GHOST after="self.change_jump_operand_at(pos_jump_if_false, to_u16(self.instructions.len())?);" proof { /* the back jump leaves from the height the loop is entered with */ assert(s_body.height@ is Dead || s0.height@ is Conflict || s_body.height@ == s0.height@); /* the JumpIfFalse lands HERE */ self.height = Ghost(hjoin(self.height@, h_exit)); }
//@PRELOOP 1 proof { self.loop_h = Ghost(self.loop_h@.drop_last()); assert(self.loop_h@ =~= old(self).loop_h@); } let ghost h_fin = self.height@; let ghost stops = __v@; let ghost len_final = self.instructions@.len() as int; let ghost n0 = old(self).instructions@.len() as int; let ghost pc = pos_jump_if_false as int; let ghost log_after_body = self.log@; proof { assert(stops == breaks(s_body, s_body.loop_contexts@.len() - 1)); assert(self.loop_contexts@ =~= s_jump.loop_contexts@.drop_last()); assert forall|i: int| 0 <= i < old(self).loop_contexts@.len() implies #[trigger] self.loop_contexts@[i].start == old(self).loop_contexts@[i].start && breaks(*self, i) == breaks(*old(self), i) by { assert(s0.loop_contexts@[i] == old(self).loop_contexts@[i]); assert(s_cond.loop_contexts@[i].start == s0.loop_contexts@[i].start); assert(breaks(s_cond, i) == breaks(s0, i)); assert(s_body.loop_contexts@[i].start == s_pre.loop_contexts@[i].start); assert(breaks(s_body, i) == breaks(s_pre, i)); assert(s_jump.loop_contexts@[i] == s_body.loop_contexts@[i]); } assert forall|j: int| 0 <= j < stops.len() implies stop_final(*self, n0, pc, len_final, #[trigger] stops[j] as int) by { assert(stop_ok(s_body, n0, pc, stops[j] as int)); assert(s_jump.instructions@[stops[j] as int] == s_body.instructions@[stops[j] as int]); }  assert(consts_syms_kept(*old(self), *self)) by { assert(consts_syms_kept(*old(self), s0)); assert(consts_syms_kept(s0, s_cond)); assert(consts_syms_kept(s_cond, s_pre)); assert(consts_syms_kept(s_pre, s_body)); assert(consts_syms_kept(s_body, s_jump)); } }
//@LOOP 1 invariant sym_globals_kept(old(self).symbols, self.symbols), self.loop_h@ == old(self).loop_h@, 0 <= self.locals_bound@ <= sym_max_size(self.symbols), self.height@ == h_fin, hstep(old(self).height@, h_fin, 1), __v@ == stops, consts_syms_kept(*old(self), *self), sym_wf(self.symbols), n0 == old(self).instructions@.len(), while_log(*old(self), log_after_body, pc, **condition, body@), self.instructions@.len() == len_final, len_final <= 0xFFFF, same_loops(*self, *old(self)), self.log@ == log_after_body, self.last_instruction == Some(OpCode::Jump), is_prefix(old(self).instructions@, self.instructions@), n0 < pc, pc + 4 <= len_final - 3, self.instructions@[n0] == opcode_byte(OpCode::Null), self.instructions@[pc] == byte_jif(), u16_at(self.instructions@, pc + 1) == len_final, self.instructions@[pc + 3] == opcode_byte(OpCode::Pop), self.instructions@[len_final - 3] == byte_jump(), u16_at(self.instructions@, len_final - 2) == n0 + 1, forall|j: int| 0 <= j < stops.len() ==> stop_final(*self, n0, pc, len_final, #[trigger] stops[j] as int), forall|j: int, k: int| 0 <= j < k < stops.len() ==> #[trigger] stops[j] + 3 <= #[trigger] stops[k], forall|j: int| 0 <= j < __it.index@ ==> u16_at(self.instructions@, #[trigger] stops[j] as int + 1) == len_final,
//@ARM file=compiler.rs fn=compile_expression impl=Compiler arm="Expr::While" rules="R1;R4;R13[ip in ctx.break_instructions]"
        proof {
            self.log = Ghost(self.log@.push(LogEntry { what: LogWhat::Stops(stops), start: n0, end: len_final, depth: 0, contexts: 0, names: 0 }));
            let k = old(self).log@.len() as int;
            let code = self.instructions@;
            assert(self.log@.len() == k + 2 + blen(body@));
            assert forall|j: int| 0 <= j < k + 1 + blen(body@) implies self.log@[j] == log_after_body[j] by {}
            assert(self.log@[k].end == pc);
            assert(n0 + 1 < pc);
            assert(code[n0] == opcode_byte(OpCode::Null));
            assert(self.log@[k + 1 + blen(body@)].what == LogWhat::Stops(stops));
            assert forall|j: int| 0 <= j < stops.len() implies n0 + 1 <= #[trigger] stops[j] && stops[j] + 3 <= code.len() - 3 && code[stops[j] as int] == byte_jump() && u16_at(code, stops[j] as int + 1) == code.len() by {
                assert(stop_final(*self, n0, pc, len_final, stops[j] as int));
            }
            // the arm meets the generator contract it assumes of its callees
            lemma_gen_post_closed_loop(*old(self), *self);
        }
        Ok(())
    }
}

/// a recorded stop right after the body: a Jump fully inside the loop's code, clear of the JumpIfFalse at pc
pub open spec fn stop_ok(c: Compiler, n0: int, pc: int, p: int) -> bool {
    n0 + 1 <= p && (p + 3 <= pc || pc + 4 <= p) && break_ok(c, p)
}
/// the same once the back jump has been emitted (the last three bytes)
pub open spec fn stop_final(c: Compiler, n0: int, pc: int, len: int, p: int) -> bool {
    n0 + 1 <= p && (p + 3 <= pc || pc + 4 <= p) && p + 3 <= len - 3 && c.instructions@[p] == byte_jump()
}
/// the ghost log right after the body: condition then body, compiled once each, in that order
pub open spec fn while_log(pre: Compiler, log: Seq<LogEntry>, pc: int, condition: Expr, body: Seq<Stmt>) -> bool {
    let k = pre.log@.len() as int;
    &&& log.len() == k + 1 + blen(body)
    &&& log[k].what == LogWhat::E(condition) && log[k].start == pre.instructions@.len() + 1 && log[k].end == pc
    &&& block_logged(log, k + 1, body, pc + 4)
}
/// see arm_while
pub open spec fn while_post(pre: Compiler, post: Compiler, condition: Expr, body: Seq<Stmt>) -> bool {
    let k = pre.log@.len() as int;
    let n0 = pre.instructions@.len() as int;
    let code = post.instructions@;
    let pc = post.log@[k].end;
    &&& post.log@.len() == k + 2 + blen(body)
    &&& post.log@[k].what == LogWhat::E(condition) && post.log@[k].start == n0 + 1
    &&& block_logged(post.log@, k + 1, body, pc + 4)
    &&& n0 + 1 < pc && pc + 4 <= code.len() - 3 && code.len() <= 0xFFFF
    &&& code[n0] == opcode_byte(OpCode::Null)
    &&& code[pc] == byte_jif() && u16_at(code, pc + 1) == code.len()
    &&& code[pc + 3] == opcode_byte(OpCode::Pop)
    &&& code[code.len() - 3] == byte_jump() && u16_at(code, code.len() - 2) == n0 + 1
    &&& same_loops(post, pre)
    &&& (post.log@[k + 1 + blen(body)].what matches LogWhat::Stops(stops) && forall|j: int| 0 <= j < stops.len() ==>
            n0 + 1 <= #[trigger] stops[j] && stops[j] + 3 <= code.len() - 3 && code[stops[j] as int] == byte_jump() && u16_at(code, stops[j] as int + 1) == code.len())
}

} // verus!
fn main() {}
