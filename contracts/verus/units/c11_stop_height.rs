// Unit c11_stop_height: the ONE statement about `stop` / `volgende` that does NOT hold on the current tree (recorded
// in known-findings.txt; DESIGN.md section 4). Static stack heights (opcodes.rs): a loop expects, at its exit and at
// its start label, the height it was entered with plus its own value (ghost stack `loop_h`, pushed by the While arm).
// `stop` / `volgende` emit `Null; Jump`, i.e. they leave from (current height + 1). When they are compiled while
// temporaries of an enclosing expression are pending - `zolang ja { [1, 2, als ja { stop }] }` - the current height
// is higher than the loop's, and the real code drops nothing: every such jump leaves residue on the operand stack.
use vstd::prelude::*;
verus! {
//@INCLUDE prelude_object.rs
//@INCLUDE opcodes.rs
//@INCLUDE prelude_compiler.rs
//@INCLUDE compiler_convert_assumed.rs

/// the jump emitted at height `cur + 1` lands where the innermost loop expects `loop_h.last()`
pub open spec fn leaves_at_loop_height(c: Compiler) -> bool {
    c.height@ is Dead || (c.loop_h@.len() > 0 && hplus(c.height@, 1) == c.loop_h@.last())
}

impl Compiler {
    fn arm_break_height(&mut self) -> (r: Result<(), Error>)
        requires gen_inv(*old(self)), old(self).loop_h@.len() == old(self).loop_contexts@.len()
        ensures r is Ok ==> leaves_at_loop_height(*old(self))
    {
//@ARM file=compiler.rs fn=compile_statement impl=Compiler arm="Stmt::Break" rules="R1;R4"
        Ok(())
    }
    fn arm_continue_height(&mut self) -> (r: Result<(), Error>)
        requires gen_inv(*old(self)), old(self).loop_h@.len() == old(self).loop_contexts@.len()
        ensures r is Ok ==> leaves_at_loop_height(*old(self))
    {
//@ARM file=compiler.rs fn=compile_statement impl=Compiler arm="Stmt::Continue" rules="R1;R4;R12"
        Ok(())
    }
}

} // verus!
fn main() {}
