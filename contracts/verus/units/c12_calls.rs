// Unit c12_calls: the Call / ReturnValue / Return arms of VM::run (src/vm.rs), sliced verbatim (R7).
use vstd::prelude::*;
verus! {
//@INCLUDE prelude_object.rs
//@INCLUDE opcodes.rs
//@INCLUDE prelude_vm.rs
//@INCLUDE vm_helpers_assumed.rs

impl VM {
    /// OpCode::Call (the opcode byte has been consumed; ip addresses the argument count).
    /// requires: the operand byte is inside the code, the callee word and its `argc` arguments are on the stack.
    /// ensures (O12.2): a fresh activation whose base is the first argument; arguments stay where they are, in
    /// call order; the remaining local slots are null; the callee word is gone; exactly one frame is pushed and
    /// the frame being left remembers the instruction after the call; EVERYTHING BELOW THE BASE IS UNCHANGED.
    fn arm_call(&mut self) -> (r: Result<(), Error>)
        requires
            old(self).ip < old(self).instructions@.len(), old(self).frames@.len() >= 1,
            old(self).stack@.len() >= 1 + old(self).instructions@[old(self).ip as int],
        ensures
            //@VACUITY
            ({
                let argc = old(self).instructions@[old(self).ip as int] as int;
                let n = old(self).stack@.len() as int;
                let f = old(self).stack@.last();
                let base = n - 1 - argc;
                // room: the new base pointer fits 16 bits AND no more than 65535 calls are nested (a function without
                // parameters and locals takes no slots per call: O05 / fix 854c8cf)
                let room = base <= 0xFFFF && old(self).frames@.len() <= 0xFFFF;
                let ok = room && spec_tag(f) == Type::Function && argc <= spec_fn_locals(f);
                &&& (ok <==> r is Ok)
                &&& (!room ==> r matches Err(Error::ArgumentError(_)))
                &&& (room && spec_tag(f) != Type::Function ==> r matches Err(Error::TypeError(_)))
                &&& (room && spec_tag(f) == Type::Function && argc > spec_fn_locals(f) ==> r matches Err(Error::ArgumentError(_)))
                &&& (r is Ok ==> {
                    &&& final(self).bp == base
                    &&& final(self).ip == spec_fn_ip(f)
                    &&& final(self).stack@.len() == base + spec_fn_locals(f)
                    &&& final(self).stack@.subrange(0, n - 1) =~= old(self).stack@.drop_last()
                    &&& (forall|i: int| n - 1 <= i < final(self).stack@.len() ==> final(self).stack@[i] == spec_null())
                    &&& final(self).frames@.len() == old(self).frames@.len() + 1
                    &&& final(self).frames@.last().ip == spec_fn_ip(f) && final(self).frames@.last().base_pointer == base
                    &&& final(self).frames@[old(self).frames@.len() - 1].ip == old(self).ip + 1
                    &&& final(self).frames@[old(self).frames@.len() - 1].base_pointer == old(self).frames@.last().base_pointer
                    &&& (forall|i: int| 0 <= i < old(self).frames@.len() - 1 ==> final(self).frames@[i] == old(self).frames@[i])
                    &&& final(self).globals == old(self).globals && final(self).instructions == old(self).instructions
                })
            }),
    {
//@LOOP 1 invariant old(self).stack@.len() >= 1, self.frames == old(self).frames, self.globals == old(self).globals, self.instructions == old(self).instructions, self.ip == old(self).ip + 1, self.bp == old(self).bp, num_locals >= num_args as u32, num_locals <= 0xFFFF, self.stack@.len() == old(self).stack@.len() - 1 + __it.index@, self.stack@.subrange(0, old(self).stack@.len() - 1) =~= old(self).stack@.drop_last(), forall|i: int| old(self).stack@.len() - 1 <= i < self.stack@.len() ==> self.stack@[i] == spec_null(),
//@ARM file=vm.rs fn=run_code impl=VM arm="OpCode::Call" rules="R1;R2;R4;R10;R8[u16::MAX as usize=>0xFFFFusize]"
        Ok(())
    }

    /// OpCode::ReturnValue. ensures (O12.3, O03.4): the callee's whole activation is gone and the result sits on
    /// top of the caller's stack, which is otherwise exactly as it was when the call was made; ip / bp are the
    /// caller's; the collection that runs here is given roots covering the caller's stack, the constants, the
    /// globals, the last statement value AND the value being returned.
    fn arm_return_value(&mut self, constants: &Vec<Object>, gc: &mut GC, final_result: Object) -> (r: Result<(), Error>)
        requires
            old(self).stack@.len() >= 1, old(self).frames@.len() >= 2,
            (old(self).frames@.last().base_pointer as int) <= old(self).stack@.len() - 1,
        ensures
            //@VACUITY
            r is Ok,
            ({
                let result = old(self).stack@.last();
                let base = old(self).frames@.last().base_pointer as int;
                let caller_stack = old(self).stack@.subrange(0, base);
                &&& final(self).stack@ =~= caller_stack.push(result)
                &&& final(self).frames@ == old(self).frames@.drop_last()
                &&& final(self).ip == old(self).frames@[old(self).frames@.len() - 2].ip
                &&& final(self).bp == old(self).frames@[old(self).frames@.len() - 2].base_pointer
                &&& final(self).globals == old(self).globals && final(self).instructions == old(self).instructions
                &&& gc_runs(*final(gc)) == gc_runs(*old(gc)) + 1
                &&& gc_last_roots(*final(gc)) =~~= seq![caller_stack, constants@, old(self).globals@, seq![final_result, result]]
            }),
    {
//@ARM file=vm.rs fn=run_code impl=VM arm="OpCode::ReturnValue" rules="R1;R4"
        Ok(())
    }

    /// OpCode::Return (function body without a value): same as ReturnValue with null as the result.
    fn arm_return(&mut self, constants: &Vec<Object>, gc: &mut GC, final_result: Object) -> (r: Result<(), Error>)
        requires
            old(self).frames@.len() >= 2,
            (old(self).frames@.last().base_pointer as int) <= old(self).stack@.len(),
        ensures
            //@VACUITY
            r is Ok,
            ({
                let base = old(self).frames@.last().base_pointer as int;
                let caller_stack = old(self).stack@.subrange(0, base);
                &&& final(self).stack@ =~= caller_stack.push(spec_null())
                &&& final(self).frames@ == old(self).frames@.drop_last()
                &&& final(self).ip == old(self).frames@[old(self).frames@.len() - 2].ip
                &&& final(self).bp == old(self).frames@[old(self).frames@.len() - 2].base_pointer
                &&& final(self).globals == old(self).globals && final(self).instructions == old(self).instructions
                &&& gc_runs(*final(gc)) == gc_runs(*old(gc)) + 1
                &&& gc_last_roots(*final(gc)) =~~= seq![caller_stack, constants@, old(self).globals@, seq![final_result]]
            }),
    {
//@ARM file=vm.rs fn=run_code impl=VM arm="OpCode::Return" rules="R1;R4"
        Ok(())
    }
}

} // verus!
fn main() {}
