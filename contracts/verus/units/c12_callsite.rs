// Unit c12_callsite: the compiler arms that lay out operands for calls, array literals, indexing, prefix
// operators, literals and statements (src/compiler.rs), verbatim. Order of evaluation is read off the ghost log.
use vstd::prelude::*;
verus! {
//@INCLUDE prelude_object.rs
//@INCLUDE opcodes.rs
//@INCLUDE prelude_compiler.rs
//@INCLUDE compiler_convert_assumed.rs
//@INCLUDE genpost_lemmas.rs

/// the log grew by exactly these expressions, in this order, each compiled right after the previous one
pub open spec fn logged_in_order(pre: Compiler, post: Compiler, es: Seq<Expr>, extra: int) -> bool {
    let k = pre.log@.len() as int;
    &&& post.log@.len() == k + es.len() + extra
    &&& (forall|j: int| 0 <= j < es.len() ==> #[trigger] post.log@[k + j].what == LogWhat::E(es[j]))
}

impl Compiler {
    /// O12.4  Expr::Call: the arguments are compiled LEFT TO RIGHT, each once; then - unless the callee is the name
    /// of a builtin - the callee expression; the instruction's argument count is the number of arguments (more
    /// than 255 is an error, not a panic); a builtin is called by its own byte.
    fn arm_call(&mut self, left: &Box<Expr>, arguments: &Vec<Expr>) -> (r: Result<(), Error>)
        requires gen_inv(*old(self))
        ensures
            r is Ok ==> hstep(old(self).height@, final(self).height@, 1),
            //@VACUITY
            sym_wf(final(self).symbols), sym_globals_kept(old(self).symbols, final(self).symbols),
            r is Ok ==> ({
                let n = arguments@.len() as int;
                let code = final(self).instructions@;
                // which of the two call instructions was emitted is remembered in last_instruction
                let used_builtin = final(self).last_instruction == Some(OpCode::CallBuiltin);
                &&& n <= 255
                &&& (final(self).last_instruction == Some(OpCode::CallBuiltin) || final(self).last_instruction == Some(OpCode::Call))
                &&& logged_in_order(*old(self), *final(self), arguments@, if used_builtin { 0int } else { 1int })
                // O09.b (fix ec50a4f): a builtin is called only by its own name AND only when the program has not declared
                // that name itself (at the callee's position the table is the final one: emitting touches no names)
                &&& (used_builtin ==> **left is Identifier && builtin_of_name((**left)->Identifier_0@) is Some
                        && sym_resolve(final(self).symbols, (**left)->Identifier_0@) is None
                        && code.len() >= 3 && code[code.len() - 3] == opcode_byte(OpCode::CallBuiltin)
                        && code[code.len() - 2] == builtin_of_name((**left)->Identifier_0@)->Some_0 && code[code.len() - 1] == n)
                &&& (!used_builtin ==> final(self).log@[old(self).log@.len() + n].what == LogWhat::E(**left)
                        && code.len() >= 2 && code[code.len() - 2] == opcode_byte(OpCode::Call) && code[code.len() - 1] == n)
                // a callee that is not a builtin's name is always called through its value
                &&& (!(**left is Identifier && builtin_of_name((**left)->Identifier_0@) is Some) ==> !used_builtin)
            }),
            r is Ok ==> is_prefix(old(self).instructions@, final(self).instructions@),
            r is Ok ==> gen_post(*old(self), *final(self), true),
    {
//@LOOP 1 invariant sym_globals_kept(old(self).symbols, self.symbols), hstep(old(self).height@, self.height@, __it.index@ as int), gen_inv(*self), gen_inv(*old(self)), gen_post(*old(self), *self, false), sym_depth(self.symbols) == sym_depth(old(self).symbols), sym_contexts(self.symbols) == sym_contexts(old(self).symbols), sym_outer(self.symbols) == sym_outer(old(self).symbols), sym_outer_sizes(self.symbols) == sym_outer_sizes(old(self).symbols), is_prefix(old(self).instructions@, self.instructions@), self.log@.len() == old(self).log@.len() + __it.index@, forall|j: int| 0 <= j < __it.index@ ==> #[trigger] self.log@[old(self).log@.len() + j].what == LogWhat::E(arguments@[j]),
//@PRELOOP 1 proof { lemma_gen_post_refl(*old(self)); }
//@GHOST before="self.compile_expression(a)?;" let ghost s_it = *self;
//@GHOST after="self.compile_expression(a)?;" proof { lemma_gen_post_trans(*old(self), s_it, *self, false, true); }
//@GHOST before="if let Expr::Identifier(name) = &**left {" let ghost s_loop = *self;
//@GHOST after="self.emit_u8(to_u8(arguments.len())?);" proof { /* operand effect of CallBuiltin <argc>: the arguments are THERE (O02.pop) and are consumed */ assert(hcovers(self.height@, arguments@.len() as int + 1)); self.height = Ghost(hplus(self.height@, -(arguments@.len() as int))); let n0 = s_loop.instructions@.len() as int; assert(self.instructions@ =~= s_loop.instructions@ + self.instructions@.subrange(n0, n0 + 3)); lemma_gen_post_append(s_loop, *self, self.instructions@.subrange(n0, n0 + 3)); lemma_gen_post_trans(*old(self), s_loop, *self, false, true); lemma_gen_post_upgrade(*old(self), *self); }
//@GHOST after="self.compile_expression(left)?;" let ghost s_left = *self;
//@ARM file=compiler.rs fn=compile_expression impl=Compiler arm="Expr::Call" rules="R1;R4;R14[compile_call];R8[for a in arguments {=>for a in __it: arguments {];R3[builtin as u8=>builtin.byte]"
        proof {
            // operand effect of Call <argc>: callee word and arguments are THERE (O02.pop); the arguments are consumed
            // (the callee word is replaced by the result)
            assert(hcovers(self.height@, arguments@.len() as int + 1));
            self.height = Ghost(hplus(self.height@, -(arguments@.len() as int)));
            let n1 = s_left.instructions@.len() as int;
            assert(self.instructions@ =~= s_left.instructions@ + self.instructions@.subrange(n1, n1 + 2));
            lemma_gen_post_append(s_left, *self, self.instructions@.subrange(n1, n1 + 2));
            lemma_gen_post_trans(*old(self), s_loop, s_left, false, true);
            lemma_gen_post_trans(*old(self), s_left, *self, false, true);
            lemma_gen_post_upgrade(*old(self), *self);
        }
        Ok(())
    }

    /// Expr::Array: the elements are compiled left to right, then `Array <count>` (count > 65535 is an error)
    fn arm_array(&mut self, values: &Vec<Expr>) -> (r: Result<(), Error>)
        requires gen_inv(*old(self))
        ensures
            r is Ok ==> hstep(old(self).height@, final(self).height@, 1),
            //@VACUITY
            sym_wf(final(self).symbols), sym_globals_kept(old(self).symbols, final(self).symbols),
            r is Ok ==> ({
                let n = values@.len() as int;
                let code = final(self).instructions@;
                &&& n <= 0xFFFF
                &&& logged_in_order(*old(self), *final(self), values@, 0)
                &&& code.len() >= 3 && code[code.len() - 3] == opcode_byte(OpCode::Array) && u16_at(code, code.len() - 2) == n
            }),
            r is Ok ==> is_prefix(old(self).instructions@, final(self).instructions@),
            r is Ok ==> gen_post(*old(self), *final(self), true),
    {
//@LOOP 1 invariant sym_globals_kept(old(self).symbols, self.symbols), hstep(old(self).height@, self.height@, __it.index@ as int), gen_inv(*self), gen_inv(*old(self)), gen_post(*old(self), *self, false), sym_depth(self.symbols) == sym_depth(old(self).symbols), sym_contexts(self.symbols) == sym_contexts(old(self).symbols), sym_outer(self.symbols) == sym_outer(old(self).symbols), sym_outer_sizes(self.symbols) == sym_outer_sizes(old(self).symbols), is_prefix(old(self).instructions@, self.instructions@), self.log@.len() == old(self).log@.len() + __it.index@, forall|j: int| 0 <= j < __it.index@ ==> #[trigger] self.log@[old(self).log@.len() + j].what == LogWhat::E(values@[j]),
//@PRELOOP 1 proof { lemma_gen_post_refl(*old(self)); }
//@GHOST before="self.compile_expression(v)?;" let ghost s_it = *self;
//@GHOST after="self.compile_expression(v)?;" proof { lemma_gen_post_trans(*old(self), s_it, *self, false, true); }
//@GHOST before="self.emit_opcode(OpCode::Array);" let ghost s_loop = *self;
//@ARM file=compiler.rs fn=compile_expression impl=Compiler arm="Expr::Array" rules="R1;R4;R8[for v in values {=>for v in __it: values {]"
        proof {
            // operand effect of Array <count>: the elements are THERE (O02.pop) and are consumed
            assert(hcovers(self.height@, values@.len() as int + 1));
            self.height = Ghost(hplus(self.height@, -(values@.len() as int)));
            let n1 = s_loop.instructions@.len() as int;
            assert(self.instructions@ =~= s_loop.instructions@ + self.instructions@.subrange(n1, n1 + 3));
            lemma_gen_post_append(s_loop, *self, self.instructions@.subrange(n1, n1 + 3));
            lemma_gen_post_trans(*old(self), s_loop, *self, false, true);
            lemma_gen_post_upgrade(*old(self), *self);
        }
        Ok(())
    }

    /// Expr::Index: target, then index, then IndexGet
    fn arm_index(&mut self, left: &Box<Expr>, index: &Box<Expr>) -> (r: Result<(), Error>)
        requires gen_inv(*old(self))
        ensures
            r is Ok ==> hstep(old(self).height@, final(self).height@, 1),
            //@VACUITY
            sym_wf(final(self).symbols), sym_globals_kept(old(self).symbols, final(self).symbols),
            r is Ok ==> (logged_in_order(*old(self), *final(self), seq![**left, **index], 0) && final(self).instructions@.last() == opcode_byte(OpCode::IndexGet)),
            r is Ok ==> is_prefix(old(self).instructions@, final(self).instructions@),
            r is Ok ==> gen_post(*old(self), *final(self), true),   // the arm itself meets the generator contract it assumes of its callees
    {
//@GHOST after="self.compile_expression(left)?;" let ghost s1 = *self;
//@GHOST after="self.compile_expression(index)?;" let ghost s2 = *self;
//@ARM file=compiler.rs fn=compile_expression impl=Compiler arm="Expr::Index" nth=2 rules="R1;R4"
        proof {
            lemma_gen_post_trans(*old(self), s1, s2, true, true);
            assert(self.instructions@ =~= s2.instructions@ + seq![opcode_byte(OpCode::IndexGet)]);
            lemma_gen_post_append(s2, *self, seq![opcode_byte(OpCode::IndexGet)]);
            lemma_gen_post_trans(*old(self), s2, *self, true, true);
        }
        Ok(())
    }

    /// Expr::Prefix: the operand, then Negate for `-`, Not for `!`; any other operator is an error
    fn arm_prefix(&mut self, operator: &Operator, right: &Box<Expr>) -> (r: Result<(), Error>)
        requires gen_inv(*old(self))
        ensures
            r is Ok ==> hstep(old(self).height@, final(self).height@, 1),
            //@VACUITY
            sym_wf(final(self).symbols), sym_globals_kept(old(self).symbols, final(self).symbols),
            r is Ok ==> (logged_in_order(*old(self), *final(self), seq![**right], 0)
                && ((*operator == Operator::Not && final(self).instructions@.last() == opcode_byte(OpCode::Not))
                    || ((*operator == Operator::Negate || *operator == Operator::Subtract) && final(self).instructions@.last() == opcode_byte(OpCode::Negate)))),
            (*operator != Operator::Not && *operator != Operator::Negate && *operator != Operator::Subtract) ==> r is Err,
            r is Ok ==> is_prefix(old(self).instructions@, final(self).instructions@),
            r is Ok ==> gen_post(*old(self), *final(self), true),
    {
//@GHOST after="self.compile_expression(right)?;" let ghost s1 = *self;
//@ARM file=compiler.rs fn=compile_expression impl=Compiler arm="Expr::Prefix" rules="R1;R4"
        proof {
            assert(self.instructions@ =~= s1.instructions@ + seq![self.instructions@.last()]);
            lemma_gen_post_append(s1, *self, seq![self.instructions@.last()]);
            lemma_gen_post_trans(*old(self), s1, *self, true, true);
        }
        Ok(())
    }

    /// Expr::Bool: one opcode, True for ja and False for nee
    fn arm_bool(&mut self, value: &bool) -> (r: Result<(), Error>)
        requires gen_inv(*old(self))
        ensures
            r is Ok ==> hstep(old(self).height@, final(self).height@, 1),
            //@VACUITY
            sym_wf(final(self).symbols), sym_globals_kept(old(self).symbols, final(self).symbols),
            r is Ok, final(self).instructions@ == old(self).instructions@.push(opcode_byte(if *value { OpCode::True } else { OpCode::False })),
            r is Ok ==> gen_post(*old(self), *final(self), true),
    {
//@ARM file=compiler.rs fn=compile_expression impl=Compiler arm="Expr::Bool" rules="R1;R4"
        proof {
            if gen_inv(*old(self)) {
                assert(self.instructions@ =~= old(self).instructions@ + seq![self.instructions@.last()]);
                lemma_gen_post_append(*old(self), *self, seq![self.instructions@.last()]);
            }
        }
        Ok(())
    }

    /// Expr::Int: `Const <slot>` where the slot holds exactly the literal's value; a literal outside the 61-bit
    /// range is an error and nothing is emitted
    fn arm_int(&mut self, value: &isize) -> (r: Result<(), Error>)
        requires gen_inv(*old(self))
        ensures
            r is Ok ==> hstep(old(self).height@, final(self).height@, 1),
            //@VACUITY
            sym_wf(final(self).symbols), sym_globals_kept(old(self).symbols, final(self).symbols),
            !(MIN_INT <= *value <= MAX_INT) ==> (r is Err && final(self).instructions@ == old(self).instructions@),
            r is Ok ==> ({
                let code = final(self).instructions@;
                let n = old(self).instructions@.len() as int;
                let ci = u16_at(code, n + 1);
                &&& code.len() == n + 3 && code[n] == opcode_byte(OpCode::Const) && is_prefix(old(self).instructions@, code)
                &&& 0 <= ci < final(self).constants@.len()
                &&& spec_tag(final(self).constants@[ci]) == Type::Int && spec_int(final(self).constants@[ci]) == *value
            }),
            forall|i: int| 0 <= i < old(self).constants@.len() ==> final(self).constants@[i] == old(self).constants@[i],
            r is Ok ==> gen_post(*old(self), *final(self), true),
    {
//@ARM file=compiler.rs fn=compile_expression impl=Compiler arm="Expr::Int" rules="R1;R4"
        proof {
            if gen_inv(*old(self)) {
                let n = old(self).instructions@.len() as int;
                assert(self.instructions@ =~= old(self).instructions@ + self.instructions@.subrange(n, n + 3));
                lemma_gen_post_append(*old(self), *self, self.instructions@.subrange(n, n + 3));
            }
        }
        Ok(())
    }

    /// Stmt::Expr: the expression, then Pop (its value becomes the value of the last statement)
    fn arm_stmt_expr(&mut self, expr: &Expr) -> (r: Result<(), Error>)
        requires gen_inv(*old(self))
        ensures
            r is Ok ==> hstep(old(self).height@, final(self).height@, 0),
            //@VACUITY
            sym_wf(final(self).symbols), sym_globals_kept(old(self).symbols, final(self).symbols),
            r is Ok ==> (logged_in_order(*old(self), *final(self), seq![*expr], 0) && final(self).instructions@.last() == opcode_byte(OpCode::Pop)
                && final(self).last_instruction == Some(OpCode::Pop) && final(self).instructions@.len() == final(self).log@.last().end + 1),
            r is Ok ==> is_prefix(old(self).instructions@, final(self).instructions@), r is Ok ==> gen_inv(*final(self)),
            r is Ok ==> gen_post(*old(self), *final(self), true),
    {
//@GHOST after="self.compile_expression(expr)?;" let ghost s1 = *self;
//@ARM file=compiler.rs fn=compile_statement impl=Compiler arm="Stmt::Expr" rules="R1;R4"
        proof {
            assert(self.instructions@ =~= s1.instructions@ + seq![opcode_byte(OpCode::Pop)]);
            lemma_gen_post_append(s1, *self, seq![opcode_byte(OpCode::Pop)]);
            lemma_gen_post_trans(*old(self), s1, *self, true, true);
        }
        Ok(())
    }

    /// Stmt::Return: outside a function it is a SyntaxError and nothing is emitted (the machine would pop its only
    /// frame); inside: the expression, then ReturnValue
    fn arm_stmt_return(&mut self, expr: &Expr) -> (r: Result<(), Error>)
        requires gen_inv(*old(self))
        ensures
            r is Ok ==> hstep(old(self).height@, final(self).height@, 0),
            //@VACUITY
            sym_wf(final(self).symbols), sym_globals_kept(old(self).symbols, final(self).symbols),
            !sym_in_function(old(self).symbols) ==> (r matches Err(Error::SyntaxError(_)) && final(self).instructions@ == old(self).instructions@ && final(self).log@ == old(self).log@),
            r is Ok ==> (sym_in_function(old(self).symbols) && logged_in_order(*old(self), *final(self), seq![*expr], 0)
                && final(self).instructions@.last() == opcode_byte(OpCode::ReturnValue)),
            r is Ok ==> is_prefix(old(self).instructions@, final(self).instructions@),
            r is Ok ==> gen_post(*old(self), *final(self), true),
    {
//@GHOST after="self.compile_expression(expr)?;" let ghost s1 = *self;
//@ARM file=compiler.rs fn=compile_statement impl=Compiler arm="Stmt::Return" rules="R1;R4"
        proof {
            assert(self.instructions@ =~= s1.instructions@ + seq![opcode_byte(OpCode::ReturnValue)]);
            lemma_gen_post_append(s1, *self, seq![opcode_byte(OpCode::ReturnValue)]);
            lemma_gen_post_trans(*old(self), s1, *self, true, true);
        }
        Ok(())
    }

    /// Stmt::Block: the block as a value (compile_block_value), then Pop - a block statement leaves nothing behind, and
    /// as the last statement of an enclosing value block its value becomes that block's value (trailing Pop)
    fn arm_stmt_block(&mut self, stmts: &Vec<Stmt>) -> (r: Result<(), Error>)
        requires gen_inv(*old(self))
        ensures
            r is Ok ==> hstep(old(self).height@, final(self).height@, 0),
            sym_wf(final(self).symbols), sym_globals_kept(old(self).symbols, final(self).symbols),
            //@VACUITY
            r is Ok ==> final(self).last_instruction == Some(OpCode::Pop) && final(self).instructions@.last() == opcode_byte(OpCode::Pop),
            r is Ok ==> exists|v: Compiler| block_value_post(*old(self), v, stmts@) && final(self).instructions@ == v.instructions@.push(opcode_byte(OpCode::Pop)) && final(self).log@ == v.log@,
            r is Ok ==> gen_post(*old(self), *final(self), true),
    {
//@GHOST after="self.compile_block_value(stmts)?;" let ghost s1 = *self;
//@ARM file=compiler.rs fn=compile_statement impl=Compiler arm="Stmt::Block" rules="R1;R4"
        proof {
            assert(self.instructions@ =~= s1.instructions@ + seq![opcode_byte(OpCode::Pop)]);
            lemma_gen_post_append(s1, *self, seq![opcode_byte(OpCode::Pop)]);
            lemma_gen_post_trans(*old(self), s1, *self, false, true);
            lemma_gen_post_upgrade(*old(self), *self);
            assert(block_value_post(*old(self), s1, stmts@) && self.instructions@ == s1.instructions@.push(opcode_byte(OpCode::Pop)) && self.log@ == s1.log@);
        }
        Ok(())
    }

    /// Expr::Float: `Const <slot>` where the slot holds a float the pool considers equal to the literal
    fn arm_float(&mut self, value: &f64) -> (r: Result<(), Error>)
        requires gen_inv(*old(self))
        ensures
            r is Ok ==> hstep(old(self).height@, final(self).height@, 1),
            //@VACUITY
            sym_wf(final(self).symbols), sym_globals_kept(old(self).symbols, final(self).symbols),
            r is Ok ==> ({
                let code = final(self).instructions@;
                let n = old(self).instructions@.len() as int;
                let ci = u16_at(code, n + 1);
                &&& code.len() == n + 3 && code[n] == opcode_byte(OpCode::Const) && is_prefix(old(self).instructions@, code)
                &&& 0 <= ci < final(self).constants@.len()
                &&& spec_tag(final(self).constants@[ci]) == Type::Float
                &&& exists|o: Object| spec_is_float_of(o, *value) && pool_equal(final(self).constants@[ci], o)
            }),
            r is Ok ==> gen_post(*old(self), *final(self), true),
    {
//@GHOST after="let obj = Object::float(*value, &mut self.gc);" let ghost s1 = *self;
//@ARM file=compiler.rs fn=compile_expression impl=Compiler arm="Expr::Float" rules="R1;R4"
        proof {
            let n = old(self).instructions@.len() as int;
            assert(self.instructions@ =~= old(self).instructions@ + self.instructions@.subrange(n, n + 3));
            lemma_gen_post_append(*old(self), *self, self.instructions@.subrange(n, n + 3));
        }
        Ok(())
    }

    /// Expr::String: `Const <slot>` where the slot holds a string the pool considers equal to the literal
    fn arm_string(&mut self, value: &String) -> (r: Result<(), Error>)
        requires gen_inv(*old(self))
        ensures
            r is Ok ==> hstep(old(self).height@, final(self).height@, 1),
            //@VACUITY
            sym_wf(final(self).symbols), sym_globals_kept(old(self).symbols, final(self).symbols),
            r is Ok ==> ({
                let code = final(self).instructions@;
                let n = old(self).instructions@.len() as int;
                let ci = u16_at(code, n + 1);
                &&& code.len() == n + 3 && code[n] == opcode_byte(OpCode::Const) && is_prefix(old(self).instructions@, code)
                &&& 0 <= ci < final(self).constants@.len()
                &&& spec_tag(final(self).constants@[ci]) == Type::String
                &&& exists|o: Object| spec_is_string_of(o, value@) && pool_equal(final(self).constants@[ci], o)
            }),
            r is Ok ==> gen_post(*old(self), *final(self), true),
    {
//@ARM file=compiler.rs fn=compile_expression impl=Compiler arm="Expr::String" rules="R1;R4"
        proof {
            let n = old(self).instructions@.len() as int;
            assert(self.instructions@ =~= old(self).instructions@ + self.instructions@.subrange(n, n + 3));
            lemma_gen_post_append(*old(self), *self, self.instructions@.subrange(n, n + 3));
        }
        Ok(())
    }
}

/// the heap-object constructors as the literal arms see them (ASSUMED here). PROVED-BY: O15.7 c15_float_roundtrip
/// (Kani, real Object::float / as_f64); strings: NOT DECIDED (see DESIGN.md, str reasoning is out of reach)
pub uninterp spec fn spec_is_float_of(o: Object, v: f64) -> bool;
pub uninterp spec fn spec_is_string_of(o: Object, v: Seq<char>) -> bool;
impl Object {
    #[verifier::external_body]
    pub fn float(value: f64, gc: &mut GC) -> (o: Object) ensures spec_tag(o) == Type::Float, spec_is_float_of(o, value) { unimplemented!() }
    #[verifier::external_body]
    pub fn string(value: &str, gc: &mut GC) -> (o: Object) ensures spec_tag(o) == Type::String, spec_is_string_of(o, value@) { unimplemented!() }
}

} // verus!
fn main() {}
