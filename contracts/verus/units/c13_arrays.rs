// Unit c13_arrays: index_get_array / index_set_array of src/vm.rs, bodies verbatim, for arrays of EVERY length.
use vstd::prelude::*;
verus! {
//@INCLUDE prelude_object.rs

pub uninterp spec fn spec_vec(o: Object) -> Seq<Object>;
impl Object {
    // PROVED-BY: O15.8b c15_array_roundtrip (bounded) - the Vec behind an Array word is the Vec it was built from
    #[verifier::external_body]
    pub fn as_vec(&self) -> (v: &Vec<Object>)
        requires spec_tag(*self) == Type::Array
        ensures v@ == spec_vec(*self)
    { unimplemented!() }
}

/// index normalisation of the property statement: counts from the back for negative indices
pub open spec fn norm(index: int, len: int) -> int { if index < 0 { index + len } else { index } }
pub open spec fn in_bounds(index: int, len: int) -> bool { 0 <= norm(index, len) < len }

// R3: `index as usize` on a possibly negative isize is two's-complement reinterpretation (Rust reference;
// PROVED-BY: O13.cast c13_cast_isize_usize, loop-free Kani harness over all isize)
#[verifier::external_body]
fn cast_isize_usize(x: isize) -> (r: usize)
    ensures r as int == (if x >= 0 { x as int } else { x as int + usize::MAX as int + 1 })
{ x as usize }
// R3: `len as isize` for a Vec length (a Vec never holds more than isize::MAX bytes: std guarantee)
#[verifier::external_body]
fn cast_usize_isize(x: usize) -> (r: isize)
    requires x <= isize::MAX
    ensures r == x
{ x as isize }

fn index_set_array(array: &mut Vec<Object>, mut index: isize, value: Object) -> (r: Result<(), Error>)
    requires old(array)@.len() <= isize::MAX, MIN_INT <= index <= MAX_INT,
    ensures
        //@VACUITY
        in_bounds(index as int, old(array)@.len() as int) ==> (r is Ok && final(array)@ == old(array)@.update(norm(index as int, old(array)@.len() as int), value)),
        !in_bounds(index as int, old(array)@.len() as int) ==> (r matches Err(Error::IndexError(_)) && final(array)@ == old(array)@),
{
//@BODY file=vm.rs fn=index_set_array sig="fn index_set_array(array: &mut Vec<Object>, mut index: isize, value: Object) -> Result<(), Error>" rules="R3[index as usize=>cast_isize_usize(index)]"
}

fn index_get_array(obj: Object, mut index: isize) -> (r: Result<Object, Error>)
    requires spec_tag(obj) == Type::Array, spec_vec(obj).len() <= isize::MAX, MIN_INT <= index <= MAX_INT,
    ensures
        //@VACUITY
        in_bounds(index as int, spec_vec(obj).len() as int) ==> (r is Ok && r->Ok_0 == spec_vec(obj)[norm(index as int, spec_vec(obj).len() as int)]),
        !in_bounds(index as int, spec_vec(obj).len() as int) ==> r matches Err(Error::IndexError(_)),
{
//@BODY file=vm.rs fn=index_get_array sig="fn index_get_array(obj: Object, mut index: isize) -> Result<Object, Error>" rules="R3[index as usize=>cast_isize_usize(index)]"
}

} // verus!
fn main() {}
