// Unit c13_strings: index_get_string / index_set_string of src/vm.rs and call_length of src/builtins.rs, bodies
// verbatim, for texts of EVERY length and content. A text is its sequence of CHARACTERS (`s@`, vstd's view of str /
// String); the std operations the functions use carry their std-documented contracts as ASSUMED helpers (Verus has no
// model of `Chars`): `chars().count()` = number of characters, `chars().nth(i)` = the i-th character or None,
// `len()` = number of BYTES of the UTF-8 encoding (between 1 and 4 per character), `char::to_string`,
// `str::to_string`. What the unit has to PROVE is what the functions do with them: the index normalisation, the
// bounds test against the number of CHARACTERS, that no `unwrap()` can meet a None (no panic on any text, any index),
// and which character is read or replaced.
use vstd::prelude::*;
verus! {
//@INCLUDE prelude_object.rs

/// the characters of the text a String word points to
pub uninterp spec fn spec_str(o: Object) -> Seq<char>;
pub uninterp spec fn spec_vec(o: Object) -> Seq<Object>;
/// length in bytes of the UTF-8 encoding of a text
pub uninterp spec fn utf8_len(s: Seq<char>) -> nat;

impl Object {
    // ASSUMED (raw memory; PROVED-BY for short texts: O15.7 c15_string_roundtrip, bounded)
    #[verifier::external_body]
    pub fn as_str<'a>(&'a self) -> (s: &'a str)
        requires spec_tag(*self) == Type::String
        ensures s@ == spec_str(*self)
    { unimplemented!() }
    #[verifier::external_body]
    pub fn as_vec(&self) -> (v: &Vec<Object>)
        requires spec_tag(*self) == Type::Array
        ensures v@ == spec_vec(*self)
    { unimplemented!() }
    #[verifier::external_body]
    pub fn string(value: String, gc: &mut GC) -> (o: Object)
        ensures spec_tag(o) == Type::String, spec_str(o) == value@
    { unimplemented!() }
}

// ---- std operations on texts (ASSUMED: the std documentation) --------------------------------------------------
// R8: `s.chars().count()`; a str never holds more than isize::MAX bytes, hence not more characters
#[verifier::external_body]
pub fn str_char_count(s: &str) -> (n: usize) ensures n == s@.len(), n <= isize::MAX { unimplemented!() }
#[verifier::external_body]
pub fn string_char_count(s: &String) -> (n: usize) ensures n == s@.len(), n <= isize::MAX { unimplemented!() }
// R8o: `s.len()` is the length in BYTES: every character takes 1 to 4 bytes
#[verifier::external_body]
pub fn str_byte_len(s: &str) -> (n: usize) ensures n == utf8_len(s@), s@.len() <= n <= 4 * s@.len(), n <= isize::MAX { unimplemented!() }
#[verifier::external_body]
pub fn string_byte_len(s: &String) -> (n: usize) ensures n == utf8_len(s@), s@.len() <= n <= 4 * s@.len(), n <= isize::MAX { unimplemented!() }
// R8: `s.chars().nth(i)`
#[verifier::external_body]
pub fn str_chars_nth(s: &str, i: usize) -> (r: Option<char>)
    ensures r == (if i < s@.len() { Some(s@[i as int]) } else { None::<char> })
{ unimplemented!() }
// R8: `ch.to_string()` / `s.to_string()`
#[verifier::external_body]
pub fn char_to_string(ch: char) -> (r: String) ensures r@ == seq![ch] { unimplemented!() }
#[verifier::external_body]
pub fn str_to_string(s: &str) -> (r: String) ensures r@ == s@ { unimplemented!() }
// R8w: `string.replace_range(string.char_indices().nth(i).map(|(pos, ch)| (pos..pos + ch.len_utf8())).unwrap(), repl)`:
// the byte range of the i-th character is replaced by the replacement text; `nth(i)` is None when the text has no
// i-th character and the unwrap() then panics - so the helper REQUIRES i to be a character index
#[verifier::external_body]
pub fn string_replace_char(s: &mut String, i: usize, repl: &String)
    requires i < old(s)@.len()
    ensures final(s)@ == old(s)@.subrange(0, i as int) + repl@ + old(s)@.subrange(i as int + 1, old(s)@.len() as int)
{ unimplemented!() }

/// index normalisation of the property statement: counts from the back for negative indices
pub open spec fn norm(index: int, len: int) -> int { if index < 0 { index + len } else { index } }
pub open spec fn in_bounds(index: int, len: int) -> bool { 0 <= norm(index, len) < len }

// R3: `index as usize` on a possibly negative isize is two's-complement reinterpretation (Rust reference;
// PROVED-BY: O13.cast c13_cast_isize_usize, loop-free Kani harness over all isize)
#[verifier::external_body]
fn cast_isize_usize(x: isize) -> (r: usize)
    ensures r as int == (if x >= 0 { x as int } else { x as int + usize::MAX as int + 1 })
{ x as usize }

/// O13.2g  index_get_string: the index counts CHARACTERS (not bytes), negative indices count from the back; in bounds
/// -> a new one-character text holding exactly that character; out of bounds -> IndexError; no panic on any text
fn index_get_string(obj: Object, mut index: isize, gc: &mut GC) -> (r: Result<Object, Error>)
    requires spec_tag(obj) == Type::String, MIN_INT <= index <= MAX_INT,
    ensures
        //@VACUITY
        in_bounds(index as int, spec_str(obj).len() as int) ==> (r is Ok && spec_tag(r->Ok_0) == Type::String && spec_str(r->Ok_0) == seq![spec_str(obj)[norm(index as int, spec_str(obj).len() as int)]]),
        !in_bounds(index as int, spec_str(obj).len() as int) ==> r matches Err(Error::IndexError(_)),
{
//@BODY file=vm.rs fn=index_get_string sig="fn index_get_string(obj: Object, mut index: isize, gc: &mut GC) -> Result<Object, Error>" rules="R1;R3[index as usize=>cast_isize_usize(index)];R8o[str.chars().count()=>str_char_count(str)];R8o[str.len()=>str_byte_len(str)];R8[str.chars().nth(index)=>str_chars_nth(str, index)];R8[ch.to_string()=>char_to_string(ch)]"
}

/// O13.2s  index_set_string: same index rule; in bounds and the value is a text -> exactly the indexed CHARACTER is
/// replaced by the value's text (everything before and after it unchanged); out of bounds -> IndexError, a
/// non-text value -> TypeError, the text unchanged in both cases; no panic on any text
fn index_set_string(string: &mut String, mut index: isize, value: Object) -> (r: Result<(), Error>)
    requires MIN_INT <= index <= MAX_INT,
    ensures
        //@VACUITY
        !in_bounds(index as int, old(string)@.len() as int) ==> (r matches Err(Error::IndexError(_)) && final(string)@ == old(string)@),
        in_bounds(index as int, old(string)@.len() as int) && spec_tag(value) != Type::String ==> (r matches Err(Error::TypeError(_)) && final(string)@ == old(string)@),
        in_bounds(index as int, old(string)@.len() as int) && spec_tag(value) == Type::String ==> (r is Ok && ({
            let i = norm(index as int, old(string)@.len() as int);
            final(string)@ == old(string)@.subrange(0, i) + spec_str(value) + old(string)@.subrange(i + 1, old(string)@.len() as int)
        })),
{
//@BODY file=vm.rs fn=index_set_string sig="fn index_set_string(string: &mut String, mut index: isize, value: Object) -> Result<(), Error>" rules="R1;R3[index as usize=>cast_isize_usize(index)];R8o[string.chars().count()=>string_char_count(string)];R8o[string.len()=>string_byte_len(string)];R8[value.as_str().to_string()=>str_to_string(value.as_str())];R8w[string.replace_range(string.char_indices().nth(index).map(|(pos, ch)| (pos..pos + ch.len_utf8())).unwrap(), &replacement,)=>string_replace_char(string, index, &replacement)]"
}

/// O14.3ls  call_length: the length of a text is its number of CHARACTERS, of a list its number of elements;
/// exactly one argument, anything else -> ArgumentError; other types -> TypeError
fn call_length(args: &[Object]) -> (r: Result<Object, Error>)
    // a list / text of more than 2^60 elements / characters does not fit any address space (range of Object::int)
    requires
        args@.len() == 1 && spec_tag(args@[0]) == Type::Array ==> spec_vec(args@[0]).len() <= MAX_INT,
        args@.len() == 1 && spec_tag(args@[0]) == Type::String ==> spec_str(args@[0]).len() <= MAX_INT,
    ensures
        //@VACUITY
        args@.len() != 1 ==> r matches Err(Error::ArgumentError(_)),
        args@.len() == 1 && spec_tag(args@[0]) == Type::String ==> (r is Ok && spec_tag(r->Ok_0) == Type::Int && spec_int(r->Ok_0) == spec_str(args@[0]).len()),
        args@.len() == 1 && spec_tag(args@[0]) == Type::Array ==> (r is Ok && spec_tag(r->Ok_0) == Type::Int && spec_int(r->Ok_0) == spec_vec(args@[0]).len()),
        args@.len() == 1 && spec_tag(args@[0]) != Type::String && spec_tag(args@[0]) != Type::Array ==> r matches Err(Error::TypeError(_)),
{
//@BODY file=builtins.rs fn=call_length sig="fn call_length(args: &[Object]) -> Result<Object, Error>" rules="R1;R8o[args[0].as_str().chars().count()=>str_char_count(args[0].as_str())];R8o[args[0].as_str().len()=>str_byte_len(args[0].as_str())]"
}

} // verus!
fn main() {}
