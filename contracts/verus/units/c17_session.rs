// Unit c17_session: what a compiler and a machine that are KEPT across evaluations carry from one program to the
// next (src/compiler.rs compile_ast / compile_program, src/vm.rs run / prologue of run_code), verbatim.
use vstd::prelude::*;
verus! {
//@INCLUDE prelude_object.rs
//@INCLUDE opcodes.rs
//@INCLUDE prelude_compiler.rs
//@INCLUDE compiler_convert_assumed.rs

pub struct Bytecode { pub constants: Vec<Object>, pub instructions: Vec<u8> }

impl GC {
    #[verifier::external_body]
    pub fn untrace(&mut self, o: Object) { unimplemented!() }
}

impl Compiler {
    /// O17.1a  compile_program: on success the code buffer has been MOVED out (the compiler's own buffer is empty
    /// for the next program), the code handed out ends with Halt, and the constants handed out are all the
    /// compiler's constants
    fn compile_program(&mut self, ast: &Vec<Stmt>) -> (r: Result<Bytecode, Error>)
        requires gen_inv(*old(self)), old(self).last_instruction != Some(OpCode::ReturnValue)
        ensures
            //@VACUITY
            r is Ok ==> (final(self).instructions@.len() == 0 && r->Ok_0.instructions@.len() > 0 && r->Ok_0.instructions@.last() == opcode_byte(OpCode::Halt)
                && r->Ok_0.constants@ == final(self).constants@ && final(self).last_instruction == Some(OpCode::Halt)),
            r is Ok ==> 0 <= final(self).locals_bound@ <= sym_max_size(final(self).symbols),
            // whatever happened, the symbol table is still usable (compile_ast resets it after a failure) and the names
            // the global scope had before are still there, in their slots
            sym_wf(final(self).symbols), sym_globals_kept(old(self).symbols, final(self).symbols),
            // O02.top  static height: Halt is reached with an EMPTY operand stack (every statement dropped what it pushed)
            r is Ok ==> hstep(H::At(0), final(self).height@, 0),
            // a program that compiles is back in the global context at its outermost scope
            r is Ok ==> sym_contexts(final(self).symbols) == sym_contexts(old(self).symbols) && sym_depth(final(self).symbols) == sym_depth(old(self).symbols),
    {
//@PRELOOP 1 proof { /* a program is a flow of its own: it starts with an empty operand stack */ self.height = Ghost(H::At(0)); }
//@LOOP 1 invariant hstep(H::At(0), self.height@, 0), sym_globals_kept(old(self).symbols, self.symbols), sym_contexts(self.symbols) == sym_contexts(old(self).symbols), sym_depth(self.symbols) == sym_depth(old(self).symbols), gen_inv(*self)
//@LOOP 2 invariant hstep(H::At(0), self.height@, 0), self.instructions@.len() > 0, self.instructions@.last() == opcode_byte(OpCode::Halt)
//@BODY file=compiler.rs fn=compile_program impl=Compiler sig="fn compile_program(&mut self, ast: &BlockStmt) -> Result<Bytecode, Error>" rules="R1;R4;R4s;R11"
    }

    /// O17.1b  compile_ast: a program that FAILS to compile leaves no emitted code, no remembered last instruction,
    /// no open loop, no open function / block context and NONE OF ITS DECLARATIONS behind: the global scope holds
    /// exactly the names it held before, in the same slots. A program that compiles leaves an empty code buffer and
    /// the session at the outermost global scope again. Either way the next program starts clean.
    pub fn compile_ast(&mut self, ast: &Vec<Stmt>) -> (r: Result<Bytecode, Error>)
        requires gen_inv(*old(self)),
                 // between two programs a session is in the global context, at its outermost scope
                 sym_contexts(old(self).symbols) == 1, sym_depth(old(self).symbols) == 1,
                 old(self).last_instruction != Some(OpCode::ReturnValue),   // Halt after a program that compiled, nothing after one that did not
        ensures
            final(self).last_instruction != Some(OpCode::ReturnValue),
            //@VACUITY
            final(self).instructions@.len() == 0,
            r is Err ==> (final(self).last_instruction is None && final(self).loop_contexts@.len() == 0),
            r is Err ==> sym_global_names(final(self).symbols) =~= sym_global_names(old(self).symbols),
            sym_globals_kept(old(self).symbols, final(self).symbols),
            sym_contexts(final(self).symbols) == 1 && sym_depth(final(self).symbols) == 1,
            r is Ok ==> (r->Ok_0.instructions@.len() > 0 && r->Ok_0.instructions@.last() == opcode_byte(OpCode::Halt)),
            gen_inv(*final(self)),   // so the NEXT compile_ast call may assume it again
    {
//@GHOST after="self.symbols.reset_to_global(globals_before);" proof { /* the failed program's flow is discarded */ self.height = Ghost(H::At(0)); self.locals_bound = Ghost(0int); }
//@BODY file=compiler.rs fn=compile_ast impl=Compiler sig="pub fn compile_ast(&mut self, ast: &BlockStmt) -> Result<Bytecode, Error>" rules="R1;R4"
    }
}

} // verus!
fn main() {}
