// Unit c17_vm: what a machine that is KEPT across evaluations carries from one run to the next (src/vm.rs:
// VM::run and the prologue of VM::run_code), verbatim.
use vstd::prelude::*;
verus! {
//@INCLUDE prelude_object.rs
//@INCLUDE opcodes.rs
//@INCLUDE prelude_vm.rs

pub struct Bytecode { pub constants: Vec<Object>, pub instructions: Vec<u8> }

impl GC {
    #[verifier::external_body]
    pub fn new() -> (g: GC) ensures g == spec_new_gc() { unimplemented!() }
    #[verifier::external_body]
    pub fn maybe_trace(&mut self, o: Object) ensures gc_runs(*final(self)) == gc_runs(*old(self)) { unimplemented!() }
}
// R11: std::mem::replace (no vstd specification for GC): returns the old value, stores the new one
#[verifier::external_body]
pub fn mem_replace_gc(dest: &mut GC, src: GC) -> (r: GC) ensures r == *old(dest), *final(dest) == src { std::mem::replace(dest, src) }

pub uninterp spec fn spec_new_gc() -> GC;
pub uninterp spec fn run_code_result(pre: VM, code: Bytecode, gc0: GC) -> (VM, GC, Result<Object, Error>);

impl VM {
    /// the interpreter loop as VM::run sees it (its own contracts are the arm units c02_arms / c12_calls)
    #[verifier::external_body]
    fn run_code(&mut self, code: Bytecode, gc: &mut GC) -> (r: Result<Object, Error>)
        ensures (*final(self), *final(gc), r) == run_code_result(*old(self), code, *old(gc))
    { unimplemented!() }

    /// O17.2a  VM::run: the collector that manages this machine's heap values is the SAME collector before and after
    /// the run - on success and on every error path - so values held by globals stay managed (and alive) for
    /// the next run; the result is passed through unchanged
    pub fn run(&mut self, code: Bytecode) -> (r: Result<Object, Error>)
        ensures
            //@VACUITY
            ({
                let (vm1, gc1, r1) = run_code_result(VM { gc: spec_new_gc(), ..*old(self) }, code, old(self).gc);
                // the machine is left EXACTLY as the interpreter loop left it (globals, stack, frames, ...), with
                // the collector put back - on success and on every error path (strengthened after seeded change C17-2)
                r == r1 && *final(self) == (VM { gc: gc1, ..vm1 })
            }),
    {
//@BODY file=vm.rs fn=run impl=VM sig="pub fn run(&mut self, code: Bytecode) -> Result<Object, Error>" rules="R1;R4;R8[std::mem::replace(&mut self.gc, GC::new())=>mem_replace_gc(&mut self.gc, GC::new())]"
    }

    /// O17.2b  the prologue of run_code: whatever the previous run left behind (operands, call frames, a stale
    /// instruction pointer), the machine starts from an EMPTY operand stack, ONE call frame with ip = bp = 0, and
    /// the new program's code; the globals are kept
    fn run_code_prologue(&mut self, code: Bytecode, gc: &mut GC)
        requires old(self).frames@.len() >= 1
        ensures
            //@VACUITY
            final(self).stack@.len() == 0, final(self).frames@.len() == 1,
            final(self).frames@[0].ip == 0 && final(self).frames@[0].base_pointer == 0,
            final(self).ip == 0 && final(self).bp == 0,
            final(self).instructions@ == code.instructions@,
            final(self).globals == old(self).globals,
    {
//@LOOP 1 invariant self.stack@.len() == 0, self.frames@.len() == 1, self.frames@[0].ip == 0 && self.frames@[0].base_pointer == 0, self.ip == 0 && self.bp == 0, self.instructions@ == code.instructions@, self.globals == old(self).globals
//@PREFIX file=vm.rs fn=run_code impl=VM until="loop {" sig="fn run_code(&mut self, code: Bytecode, gc: &mut GC) -> Result<Object, Error>" rules="R1;R4;R11"
    }
}

} // verus!
fn main() {}
