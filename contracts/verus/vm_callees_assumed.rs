// ---- vm_callees_assumed.rs: callees of the dispatch arms that live in other modules, as the machine sees them ----
pub uninterp spec fn spec_vec(o: Object) -> Seq<Object>;
/// uninterpreted result relations: WHAT a builtin / an index operation answers is decided by C14 / C13; the
/// machine contracts say which arguments it is given, in which order
pub uninterp spec fn builtin_rel(b: u8, args: Seq<Object>, r: Result<Object, Error>) -> bool;
pub uninterp spec fn index_get_rel(left: Object, index: Object, r: Result<Object, Error>) -> bool;
pub uninterp spec fn index_set_rel(left: Object, index: Object, value: Object, r: Result<Object, Error>) -> bool;

pub struct Builtin { pub byte: u8 }
// R8: `transmute::<u8, Builtin>(b)`; PROVED-BY: O14.1 c14_builtin_bytes (sound exactly for b <= 6)
#[verifier::external_body]
fn builtin_from_u8(b: u8) -> (r: Builtin) requires b <= 6 ensures r.byte == b { unimplemented!() }

pub mod builtins {
    use super::*;
    // PROVED-BY: O14.0 c14_dispatch + the per-builtin obligations of C14
    #[verifier::external_body]
    pub fn call(builtin: Builtin, args: &[Object], gc: &mut GC) -> (r: Result<Object, Error>)
        ensures builtin_rel(builtin.byte, args@, r), gc_same_objects(*old(gc), *final(gc), r)
    { unimplemented!() }
}
// PROVED-BY: C13 obligations (O13.1, O13.3a/b)
#[verifier::external_body]
fn index_get(left: Object, index: Object, gc: &mut GC) -> (r: Result<Object, Error>)
    ensures index_get_rel(left, index, r), gc_same_objects(*old(gc), *final(gc), r)
{ unimplemented!() }
#[verifier::external_body]
fn index_set(left: Object, index: Object, value: Object) -> (r: Result<Object, Error>)
    ensures index_set_rel(left, index, value, r)
{ unimplemented!() }

impl Object {
//@ASSUMES unit=c06_arith.rs fn=checked_int full=1
    // PROVED-BY: O15.8b c15_array_roundtrip (bounded), O03.1
    #[verifier::external_body]
    pub fn array(value: Vec<Object>, gc: &mut GC) -> (o: Object)
        ensures spec_tag(o) == Type::Array, spec_vec(o) == value@, gc_runs(*final(gc)) == gc_runs(*old(gc)), gc_last_roots(*final(gc)) == gc_last_roots(*old(gc))
    { unimplemented!() }
}
// R6n: the float arm of Negate (`Object::float(-left.as_f64_unchecked(), gc)`); Verus has no usable f64 model
#[verifier::external_body]
fn float_neg_arm(left: Object, gc: &mut GC) -> (o: Object) ensures spec_tag(o) == Type::Float { unimplemented!() }
// TRUST: std - isize::checked_neg is None exactly for isize::MIN, otherwise Some(-x) (no vstd specification)
#[verifier::external_body]
fn checked_neg_isize(x: isize) -> (r: Option<isize>)
    ensures x == isize::MIN ==> r is None, x != isize::MIN ==> r == Some((-x) as isize)
{ x.checked_neg() }
// R11: std - slice::reverse reverses in place (no vstd specification)
#[verifier::external_body]
fn vec_reverse(v: &mut Vec<Object>) ensures final(v)@ == old(v)@.reverse() { v.reverse() }
// R3 cast helpers (PROVED-BY: O02.cast c02_cast_contracts)
#[verifier::external_body]
fn cast_u16_usize(x: u16) -> (r: usize) ensures r == x { x as usize }
#[verifier::external_body]
fn cast_u8_usize(x: u8) -> (r: usize) ensures r == x { x as usize }
