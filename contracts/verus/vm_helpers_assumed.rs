// ---- vm_helpers_assumed.rs: contracts of the safe VM helpers, as VERIFIED verbatim in unit c02_helpers ----
// (arm units see only these contracts, never the helper bodies: modular verification)
impl Frame {
//@ASSUMES unit=c02_helpers.rs after="impl Frame {" fn=new full=1
}
impl VM {
//@ASSUMES unit=c02_helpers.rs fn=get_local full=1
//@ASSUMES unit=c02_helpers.rs fn=set_local full=1
//@ASSUMES unit=c02_helpers.rs fn=jump full=1
//@ASSUMES unit=c02_helpers.rs fn=push full=1
//@ASSUMES unit=c02_helpers.rs fn=popframe full=1
//@ASSUMES unit=c02_helpers.rs fn=pushframe full=1
}
// R3 cast helpers (PROVED-BY: O02.cast c02_cast_contracts, loop-free Kani harness over all values)
#[verifier::external_body]
fn cast_usize_u16(x: usize) -> (r: u16) requires x <= 0xFFFF ensures r == x { x as u16 }
