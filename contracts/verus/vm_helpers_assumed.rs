// ---- vm_helpers_assumed.rs: contracts of the safe VM helpers, as VERIFIED verbatim in unit c02_helpers ----
// (arm units see only these contracts, never the helper bodies: modular verification)
impl Frame {
    // PROVED-BY: unit c02_helpers
    #[verifier::external_body]
    fn new(ip: usize, base_pointer: u16) -> (f: Self) ensures f.ip == ip, f.base_pointer == base_pointer { unimplemented!() }
}
impl VM {
    // PROVED-BY: unit c02_helpers (verbatim body)
    #[verifier::external_body]
    fn get_local(&self, rel_idx: u16) -> (o: Object)
        requires (self.bp as int) + (rel_idx as int) < self.stack@.len()
        ensures o == self.stack@[self.bp as int + rel_idx as int]
    { unimplemented!() }
    // PROVED-BY: unit c02_helpers
    #[verifier::external_body]
    fn set_local(&mut self, rel_idx: u16, value: Object)
        requires (old(self).bp as int) + (rel_idx as int) < old(self).stack@.len()
        ensures final(self).stack@ == old(self).stack@.update(old(self).bp as int + rel_idx as int, value), same_but_stack(*old(self), *final(self))
    { unimplemented!() }
    // PROVED-BY: unit c02_helpers
    #[verifier::external_body]
    fn jump(&mut self, ip: u16) ensures final(self).ip == ip as usize, same_but_ip(*old(self), *final(self)) { unimplemented!() }
    // PROVED-BY: unit c02_helpers
    #[verifier::external_body]
    fn push(&mut self, obj: Object) ensures final(self).stack@ == old(self).stack@.push(obj), same_but_stack(*old(self), *final(self)) { unimplemented!() }
    // PROVED-BY: unit c02_helpers
    #[verifier::external_body]
    fn popframe(&mut self)
        requires old(self).frames@.len() >= 2, (old(self).frames@.last().base_pointer as int) <= old(self).stack@.len()
        ensures
            final(self).frames@ == old(self).frames@.drop_last(),
            final(self).stack@ == old(self).stack@.subrange(0, old(self).frames@.last().base_pointer as int),
            final(self).ip == old(self).frames@[old(self).frames@.len() - 2].ip,
            final(self).bp == old(self).frames@[old(self).frames@.len() - 2].base_pointer,
            final(self).globals == old(self).globals, final(self).instructions == old(self).instructions,
    { unimplemented!() }
    // PROVED-BY: unit c02_helpers
    #[verifier::external_body]
    fn pushframe(&mut self, ip: u32, base_pointer: u16)
        requires old(self).frames@.len() >= 1
        ensures
            final(self).frames@.len() == old(self).frames@.len() + 1,
            final(self).frames@.last().ip == ip as usize, final(self).frames@.last().base_pointer == base_pointer,
            final(self).frames@[old(self).frames@.len() - 1].ip == old(self).ip,
            final(self).frames@[old(self).frames@.len() - 1].base_pointer == old(self).frames@.last().base_pointer,
            forall|i: int| 0 <= i < old(self).frames@.len() - 1 ==> final(self).frames@[i] == old(self).frames@[i],
            final(self).ip == ip as usize, final(self).bp == base_pointer,
            final(self).stack == old(self).stack, final(self).globals == old(self).globals, final(self).instructions == old(self).instructions,
    { unimplemented!() }
}
// R3 cast helpers (PROVED-BY: O02.cast c02_cast_contracts, loop-free Kani harness over all values)
#[verifier::external_body]
fn cast_usize_u16(x: usize) -> (r: u16) requires x <= 0xFFFF ensures r == x { x as u16 }
