#!/usr/bin/env python3
"""Driver for the contract checks of /verif (see DESIGN.md section 2).

check <PROPERTY> [--tier quick|thorough] [--replay FILE] [--only OBLIGATION[,..]] [--keep]

Exit codes: 0 = every obligation of the property discharged on /repo's working tree,
            1 = at least one obligation failed (VIOLATION line printed),
            2 = undecided (lost anchor, tool limit, timeout) - never a VIOLATION line.
"""
import json, os, re, shutil, subprocess, sys, tempfile, time, hashlib

VERIF = os.path.dirname(os.path.dirname(os.path.abspath(__file__)))
REPO = os.environ.get("VERIF_REPO", "/repo")
sys.path.insert(0, os.path.join(VERIF, "lib"))
import registry  # noqa: E402
import extract   # noqa: E402

KANI_DIR = os.path.join(VERIF, "contracts", "kani")
VERUS_DIR = os.path.join(VERIF, "contracts", "verus")
EVID_DIR = os.path.join(VERIF, "evidence")
REPLAY_DIR = os.path.join(VERIF, "replay")
FINDINGS = os.path.join(VERIF, "known-findings.txt")

ENV = dict(os.environ)
ENV["CARGO_NET_OFFLINE"] = "true"
ENV.pop("RUSTFLAGS", None)

TRUSTED_BASE = [
    "rustc + Kani 0.68 MIR->goto translation, CBMC 6.11 and its SAT back end (CaDiCaL)",
    "Verus 0.2026.09.13 + bundled Z3, vstd specifications of Vec / Option / Result / integer ops",
    "extraction rules R1-R8 of DESIGN.md 2.3 (Verus units only; per-unit hash and rule counts are in this file)",
    "Rust `as`-cast semantics where R3 replaces a cast by a helper with the two's-complement contract",
    "global allocator honours Layout alignment (CBMC models a fresh object at offset 0)",
    "std code called but not specified: str::parse, to_string, str comparison, replace_range, chars (executed by Kani inside bounds; opaque in Verus units)",
    "stubs: std::fmt::format (error message text only), std::io::_print where stated",
]


def log(*a):
    print(*a, flush=True)


# --------------------------------------------------------------------------------------------
# overlay
# --------------------------------------------------------------------------------------------
def make_overlay(tmp):
    ov = os.path.join(tmp, "overlay")
    os.makedirs(ov)
    for name in os.listdir(REPO):
        if name in ("target", ".git"):
            continue
        s = os.path.join(REPO, name)
        d = os.path.join(ov, name)
        if os.path.isdir(s):
            shutil.copytree(s, d, symlinks=True)
        else:
            shutil.copy2(s, d)
    return ov


def write_twins(tmp, module):
    """Generate the arm-twin file for `module` from /repo/src (see registry.TWINS). Returns path or None."""
    twins = registry.TWINS.get(module)
    if not twins:
        return None
    out = ["//! GENERATED on every run by /verif/lib/driver.py from /repo/src: match arms as methods, text verbatim",
           "#![allow(unused_variables, unused_mut, dead_code)]", "use super::*;"]
    by_impl = {}
    for t in twins:
        text = open(os.path.join(REPO, "src", t["file"])).read()
        mask = extract.code_mask(text)
        fs, bo, bc = extract.find_fn(text, mask, t["fn"], t.get("impl"))
        k, a, b = extract.find_arm(text, mask, bo, bc, t["arm"])
        body = text[a:b]
        if k == "expr":
            body = body.strip() + ";"
        body, _ = extract.expand_macro_calls(body, text, mask)
        if t.get("rules"):
            body = extract.apply_rules(body, t["rules"], {})
        by_impl.setdefault(t.get("impl"), []).append("    pub(crate) fn %s%s {\n%s\n        %s\n    }" % (t["name"], t["sig"], body, t["tail"]))
    for impl, fns in by_impl.items():
        out.append("impl %s {" % impl)
        out += fns
        out.append("}")
    path = os.path.join(tmp, "twins_%s.rs" % module)
    with open(path, "w") as f:
        f.write("\n".join(out) + "\n")
    return path


def attach_kani_modules(ov, modules, contracts_root):
    """Append one cfg(kani) line per module to the overlay copy; return the diff statistics.
    The overlay's function bodies stay byte-identical to /repo's: we assert that every
    overlay file is the /repo file plus appended lines that start with #[cfg(kani)]."""
    added = {}
    for m in sorted(modules):
        src = os.path.join(ov, "src", m + ".rs")
        if not os.path.exists(src):
            raise LostAnchor("module src/%s.rs does not exist in /repo" % m)
        line = '#[cfg(kani)] #[path = "%s"] mod verif_kani;\n' % os.path.join(contracts_root, m + ".rs")
        tw = write_twins(os.path.dirname(ov.rstrip("/")), m)
        if tw:
            line += '#[cfg(kani)] #[path = "%s"] mod verif_twins;\n' % tw
        with open(src, "a") as f:
            f.write("\n" + line)
        added[m] = line.strip()
    # lib.rs: crate-level feature gates are not needed (no loop contracts).
    # verify add-only / cfg-guarded
    for m in modules:
        a = open(os.path.join(REPO, "src", m + ".rs")).read()
        b = open(os.path.join(ov, "src", m + ".rs")).read()
        if not b.startswith(a):
            raise RuntimeError("overlay of %s is not an extension of /repo's file" % m)
        extra = [l for l in b[len(a):].splitlines() if l.strip()]
        if any(not l.startswith("#[cfg(kani)]") for l in extra):
            raise RuntimeError("overlay adds an unguarded line to %s" % m)
    return added


class LostAnchor(Exception):
    pass


# --------------------------------------------------------------------------------------------
# Kani
# --------------------------------------------------------------------------------------------
HARNESS_RE = re.compile(r"Checking harness (\S+?)\.\.\.")


def harness_path(o):
    # src/lib.rs is the crate root: its child module has no module prefix
    return ("verif_kani::%s" % o["harness"]) if o["module"] == "lib" else "%s::verif_kani::%s" % (o["module"], o["harness"])


def run_kani(ov, obligations, jobs, timeout_s, extra_args=()):
    """Run all harnesses in one cargo-kani invocation. Returns {harness: result dict} and raw output."""
    names = [o["harness"] for o in obligations]
    cmd = ["cargo", "kani", "-Z", "function-contracts", "-Z", "stubbing", "-Z", "unstable-options",
           "--output-format", "terse", "--harness-timeout", "%ds" % timeout_s, "-j", str(jobs), "--exact"]
    for o in obligations:
        cmd += ["--harness", harness_path(o)]
    cmd += list(extra_args)
    t0 = time.time()
    p = subprocess.run(cmd, cwd=ov, env=ENV, stdout=subprocess.PIPE, stderr=subprocess.STDOUT, text=True,
                       timeout=timeout_s * max(1, (len(names) + jobs - 1) // jobs) + 900)
    out = p.stdout
    wall = time.time() - t0
    return parse_kani(out, obligations), out, wall, " ".join(cmd), p.returncode


def parse_kani(out, obligations):
    # With -j the "Checking harness" lines and the result blocks are interleaved; a result block starts
    # with a line "Thread N: " and runs to the next "Thread" line. Without -j there are no prefixes.
    blocks = {}
    cur = None
    thread_h = {}
    for l in out.splitlines():
        m = re.match(r"^Thread (\d+): ?(.*)$", l)
        if m:
            t, rest = m.group(1), m.group(2)
            hm = HARNESS_RE.search(rest)
            if hm:
                thread_h[t] = hm.group(1).split("::")[-1]
                cur = None
                blocks.setdefault(thread_h[t], [])
            else:
                cur = thread_h.get(t)
                if cur is not None:
                    blocks.setdefault(cur, []).append(rest)
            continue
        hm = HARNESS_RE.search(l)
        if hm:
            cur = hm.group(1).split("::")[-1]
            blocks.setdefault(cur, [])
            continue
        if l.startswith("Manual Harness Summary") or l.startswith("Complete - "):
            cur = None
        if cur is not None:
            blocks[cur].append(l)
    res = {}
    for o in obligations:
        h = o["harness"]
        b = blocks.get(h)
        r = {"status": "missing", "failed_checks": [], "time_s": None, "stubs": [], "covers": None, "checks": None, "raw": ""}
        if b is None:
            res[h] = r
            continue
        text = "\n".join(b)
        r["raw"] = text
        m = re.search(r"\*\* (\d+) of (\d+) failed", text)
        if m:
            r["checks"] = int(m.group(2))
            r["failed"] = int(m.group(1))
        m = re.search(r"\*\* (\d+) of (\d+) cover properties satisfied", text)
        if m:
            r["covers"] = (int(m.group(1)), int(m.group(2)))
        m = re.search(r"Verification Time: ([0-9.]+)s", text)
        if m:
            r["time_s"] = float(m.group(1))
        r["stubs"] = re.findall(r"- Stub: (.*)", text)
        fc = []
        for i, l in enumerate(b):
            if l.startswith("Failed Checks:"):
                loc = b[i + 1].strip() if i + 1 < len(b) and b[i + 1].strip().startswith("File:") else ""
                fc.append({"check": l[len("Failed Checks:"):].strip(), "loc": loc})
        r["failed_checks"] = fc
        if "VERIFICATION:- SUCCESSFUL" in text:
            r["status"] = "success"
        elif "VERIFICATION:- FAILED" in text:
            r["status"] = "failed"
            if re.search(r"timed out|TIMEOUT|Timeout", text):
                r["status"] = "timeout"
        elif re.search(r"timed out|TIMEOUT|Timeout", text):
            r["status"] = "timeout"
        else:
            r["status"] = "error"
        res[h] = r
    return res


# CBMC's floating-point sanity checks (NaN produced by inf-inf, 0/0, ...) are not part of any contract:
# NaN is a legitimate IEEE result for the language.
IGNORED_CHECKS = [r"^NaN on (addition|subtraction|multiplication|division)"]

UNDECIDED_PATTERNS = [
    r"unwinding assertion", r"is not currently supported", r"unsupported", r"not supported by Kani",
    r"reachability check", r"out of memory", r"recursion unwinding",
]


def classify_kani(r, o=None):
    """-> 'ok' | 'violation' | 'undecided' | 'vacuous'"""
    r["failed_checks"] = [f for f in r["failed_checks"] if not any(re.search(p, f["check"]) for p in IGNORED_CHECKS)]
    if r["status"] == "failed" and not r["failed_checks"] and r.get("failed", 0) > 0 and "NaN on" in r["raw"]:
        r["status"] = "success"
        r["ignored_float_nan_checks"] = True
    if r["status"] == "success":
        if r["covers"] is not None and r["covers"][0] < r["covers"][1]:
            return "vacuous"
        return "ok"
    if r["status"] in ("timeout", "error", "missing"):
        return "undecided"
    # failed: property failure unless every failed check is a tool-limit pattern
    fcs = r["failed_checks"]
    if not fcs:
        return "undecided"
    pats = UNDECIDED_PATTERNS
    if o is not None and o.get("termination"):
        # termination within the harness's unwinding bound is part of this obligation's contract
        pats = [p for p in pats if p not in (r"unwinding assertion", r"recursion unwinding")]
    real = [f for f in fcs if not any(re.search(p, f["check"]) for p in pats)]
    return "violation" if real else "undecided"


def kani_playback_print(ov, o, timeout_s):
    cmd = ["cargo", "kani", "-Z", "function-contracts", "-Z", "stubbing", "-Z", "unstable-options", "-Z", "concrete-playback",
           "--concrete-playback=print", "--output-format", "terse", "--harness-timeout", "%ds" % timeout_s, "--exact",
           "--harness", harness_path(o)]
    try:
        p = subprocess.run(cmd, cwd=ov, env=ENV, stdout=subprocess.PIPE, stderr=subprocess.STDOUT, text=True, timeout=timeout_s + 600)
    except subprocess.TimeoutExpired:
        return []
    tests = re.findall(r"```\n(.*?)```", p.stdout, re.S)
    return [t for t in tests if "concrete_playback_run" in t and "Check for `cover`" not in t]


def native_playback(tmp, module, tests):
    """Compile the real crate natively (cfg(kani) playback build: plain rustc test profile with Kani's
    library shim) with the given generated tests appended to the harness module, run them.
    Returns list of (testname, failed:bool, output)."""
    ov = make_overlay(os.path.join(tmp, "pb%d" % int(time.time() * 1000)))
    croot = os.path.join(ov, "verif_contracts")
    shutil.copytree(KANI_DIR, croot)
    with open(os.path.join(croot, module + ".rs"), "a") as f:
        for t in tests:
            f.write("\n" + t + "\n")
    attach_kani_modules(ov, [module], croot)
    names = [re.search(r"fn (kani_concrete_playback_\w+)", t).group(1) for t in tests]
    cmd = ["cargo", "kani", "playback", "-Z", "concrete-playback", "--", "kani_concrete_playback"]
    p = subprocess.run(cmd, cwd=ov, env=ENV, stdout=subprocess.PIPE, stderr=subprocess.STDOUT, text=True, timeout=1800)
    res = []
    for n in names:
        m = re.search(r"test \S*%s \.\.\. (\w+)" % re.escape(n), p.stdout)
        res.append((n, (m is not None and m.group(1) == "FAILED"), m.group(1) if m else "not-run"))
    shutil.rmtree(ov, ignore_errors=True)
    return res, p.stdout


# --------------------------------------------------------------------------------------------
# Verus
# --------------------------------------------------------------------------------------------
def run_verus(tmp, o, extra_suffix=""):
    """Extract the unit from /repo/src, verify it. Returns result dict."""
    unit = o["unit"]
    r = {"status": "error", "verified": 0, "errors": 0, "time_s": None, "messages": [], "unit_hash": None, "rules": {}, "lines": 0}
    try:
        text, meta = extract.build_unit(os.path.join(VERUS_DIR, "units", unit + ".rs"), os.path.join(REPO, "src"), VERUS_DIR)
    except extract.LostAnchor as e:
        r["status"] = "lost-anchor"
        r["messages"] = [str(e)]
        return r
    if extra_suffix:
        text = extra_suffix(text)
    path = os.path.join(tmp, "verus_" + unit + ".rs")
    with open(path, "w") as f:
        f.write(text)
    r["unit_hash"] = hashlib.sha256(text.encode()).hexdigest()[:16]
    r["vacuity_markers"] = text.count("/*@VACUITY*/") + text.count("/*@VACUITY-ON*/")
    r["rules"] = meta["rules"]
    r["lines"] = text.count("\n")
    r["sliced"] = meta["sliced"]
    r["assumes"] = meta.get("assumes", [])
    r["types"] = meta.get("types", [])
    r["consts"] = meta.get("consts", [])
    t0 = time.time()
    cmd = ["verus", path, "--output-json", "--time", "--multiple-errors", "10", "--rlimit", str(o.get("rlimit", 30))]
    try:
        p = subprocess.run(cmd, cwd=tmp, env=ENV, stdout=subprocess.PIPE, stderr=subprocess.PIPE, text=True, timeout=o.get("timeout", 300))
    except subprocess.TimeoutExpired:
        r["status"] = "timeout"
        return r
    r["time_s"] = round(time.time() - t0, 2)
    r["cmd"] = " ".join(cmd)
    try:
        j = json.loads(p.stdout[p.stdout.index("{"):])
    except Exception:
        j = {}
    vr = j.get("verification-results", {})
    r["verified"] = vr.get("verified", 0)
    r["errors"] = vr.get("errors", 0)
    r["smt_time_ms"] = j.get("times-ms", {}).get("smt", {}).get("total") if isinstance(j.get("times-ms"), dict) else None
    msgs = re.findall(r"^(error[^\n]*\n(?:[^\n]*\n){0,12})", p.stderr, re.M)
    r["messages"] = [m.strip() for m in msgs][:10]
    r["stderr_tail"] = p.stderr[-3000:]
    if vr.get("success") and r["errors"] == 0 and r["verified"] > 0:
        r["status"] = "success"
    elif vr and r["errors"] > 0:
        # verification errors (postcondition / precondition / overflow / assertion) vs. tool errors
        if re.search(r"rlimit|resource limit|timed out|not supported|unsupported|does not yet support", p.stderr, re.I) and not re.search(
                r"postcondition not satisfied|precondition not satisfied|assertion failed|possible arithmetic|possible division|invariant not satisfied|might fail|decreases not satisfied|index out of bounds|possible bit shift", p.stderr):
            r["status"] = "tool-limit"
        else:
            r["status"] = "failed"
    else:
        # rustc-level error: construct not accepted => tool limit / lost anchor, never a violation
        r["status"] = "tool-limit"
    return r


# --------------------------------------------------------------------------------------------
# known findings
# --------------------------------------------------------------------------------------------
def load_findings():
    open_f = []
    if os.path.exists(FINDINGS):
        for l in open(FINDINGS):
            l = l.strip()
            if l.startswith("finding:"):
                m = re.match(r"finding:\s+property=(\S+)\s+obligation=(\S+)\s+check=\"([^\"]*)\"\s*(.*)", l)
                if m:
                    open_f.append({"property": m.group(1), "obligation": m.group(2), "check": m.group(3), "what": m.group(4)})
    return open_f


# --------------------------------------------------------------------------------------------
# mechanical scan for assumptions
# --------------------------------------------------------------------------------------------
SCAN_PATTERNS = ["kani::assume", "assume(", "admit(", "external_body", "assume_specification", "kani::stub", "verifier::truncate",
                 "external_fn_specification", "uninterp", "#[verifier::external", "exec_allows_no_decreases_clause"]


def scan_assumptions(files):
    found = []
    for f in files:
        if not os.path.exists(f):
            continue
        for i, l in enumerate(open(f), 1):
            s = l.strip()
            if s.startswith("//@ASSUMES"):
                found.append("%s:%d: %s" % (os.path.relpath(f, VERIF), i, s[:200]))
                continue
            if s.startswith("//") and "TRUST:" not in s and "PROVED-BY:" not in s:
                continue
            for p in SCAN_PATTERNS:
                if p in s:
                    found.append("%s:%d: %s" % (os.path.relpath(f, VERIF), i, s[:160]))
                    break
    return found


# --------------------------------------------------------------------------------------------
# main
# --------------------------------------------------------------------------------------------
def write_replay(pid, o, kind, body_lines, tests, verdict):
    os.makedirs(REPLAY_DIR, exist_ok=True)
    path = os.path.join(REPLAY_DIR, "%s-%s.rs" % (pid, o["id"]))
    with open(path, "w") as f:
        f.write("// REPLAY FILE written by /verif/bin/check\n")
        f.write("// property: %s\n// obligation: %s (%s)\n// backend: %s unit/harness: %s\n" % (
            pid, o["id"], o.get("desc", ""), o["backend"], o.get("harness") or o.get("unit")))
        if o.get("module"):
            f.write("// module: %s\n" % o["module"])
        f.write("// verdict: %s\n" % verdict)
        f.write("// replay with: /verif/bin/check %s --replay %s\n" % (pid, path))
        f.write("// ---- verifier output ----\n")
        for l in body_lines:
            f.write("// " + l + "\n")
        f.write("// ---- concrete playback tests (run natively against /repo) ----\n")
        for t in tests:
            f.write(t + "\n")
    return path


def do_replay(pid, path):
    text = open(path).read()
    m = re.search(r"// module: (\S+)", text)
    tests = re.findall(r"(?:^///[^\n]*\n)*#\[test\]\nfn kani_concrete_playback_.*?\n}\n", text, re.S | re.M)
    if not m or not tests:
        log("replay file carries no concrete input (obligation failed without a counterexample); verifier output:")
        log(text)
        return 1
    tmp = tempfile.mkdtemp(prefix="verif-replay-")
    try:
        res, out = native_playback(tmp, m.group(1), tests)
    finally:
        shutil.rmtree(tmp, ignore_errors=True)
    bad = [n for n, failed, _ in res if failed]
    for n, failed, st in res:
        log("replay %s: %s" % (n, "FAILS on /repo (violation reproduced)" if failed else st))
    if bad:
        log("VIOLATION property=%s replay=%s" % (pid, path))
        return 1
    return 0


def main(argv):
    import argparse
    ap = argparse.ArgumentParser()
    ap.add_argument("property")
    ap.add_argument("--tier", default=os.environ.get("VERIF_TIER", "quick"))
    ap.add_argument("--replay")
    ap.add_argument("--only")
    ap.add_argument("--keep", action="store_true")
    ap.add_argument("--jobs", type=int, default=int(os.environ.get("VERIF_JOBS", "8")))
    ap.add_argument("--no-replay-search", action="store_true")
    a = ap.parse_args(argv)
    pid = a.property
    tier = a.tier if a.tier in ("quick", "thorough") else "quick"
    seed = int(os.environ.get("VERIF_SEED", "0") or 0)
    if a.replay:
        return do_replay(pid, a.replay)

    t_start = time.time()
    obs = [o for o in registry.OBLIGATIONS if pid in o["props"] and (tier == "thorough" or o.get("tier", "quick") == "quick")]
    if a.only:
        sel = set(a.only.split(","))
        obs = [o for o in obs if o["id"] in sel or o.get("harness") in sel or o.get("unit") in sel]
    if not obs:
        log("no obligations registered for %s" % pid)
        return 2
    expected = len(obs)
    tmp = tempfile.mkdtemp(prefix="verif-%s-" % pid)
    results = {}
    undecided, violations, known = [], [], []
    kani_cmd = ""
    kani_wall = 0.0
    kani_raw = ""
    overlay_diff = {}
    try:
        kobs = [o for o in obs if o["backend"] == "kani"]
        vobs = [o for o in obs if o["backend"] == "verus"]
        # ---- Verus first (fast) ----
        for o in vobs:
            r = run_verus(tmp, o)
            if r["status"] == "failed":
                # guard against solver instability (a proof that flips with the resource limit is not a violation):
                # a genuine failure fails again with a three times larger budget
                r2 = run_verus(tmp, dict(o, rlimit=o.get("rlimit", 30) * 3 + 7))
                if r2["status"] == "success":
                    r2["flaky_first_attempt"] = r["messages"][:2]
                    r = r2
            results[o["id"]] = r
            log("[verus] %-8s %-28s %s (%s verified, %s errors, %ss)" % (o["id"], o["unit"], r["status"], r["verified"], r["errors"], r["time_s"]))
            if r["status"] == "success":
                exp = o.get("expect_verified")
                if exp is not None and r["verified"] < exp:
                    r["status"] = "vacuous"
                    undecided.append((o, "verified %d functions, expected at least %d" % (r["verified"], exp)))
                elif tier == "thorough" or o.get("vacuity_quick"):
                    # vacuity pass: the unit with `ensures false` spliced on the target fn must fail
                    v = run_verus(tmp, dict(o, unit=o["unit"]), extra_suffix=lambda t: extract.falsify(t))
                    r["vacuity_pass"] = v["status"]
                    if v["status"] == "success" or (v["status"] == "failed" and v["errors"] < r.get("vacuity_markers", 1)):
                        r["status"] = "vacuous"
                        undecided.append((o, "with `ensures false` spliced into %d contracts only %d fail: contradictory requires" % (r.get("vacuity_markers", 1), v["errors"])))
            elif r["status"] == "failed":
                violations.append(o)
            else:
                undecided.append((o, r["status"] + ": " + "; ".join(r["messages"])[:400]))
        # ---- Kani ----
        if kobs:
            ov = make_overlay(tmp)
            mods = sorted(set(o["module"] for o in kobs))
            overlay_diff = attach_kani_modules(ov, mods, KANI_DIR)
            tmo = max(o.get("timeout", 1500 if tier == "quick" else 3600) for o in kobs)
            kres, kani_raw, kani_wall, kani_cmd, rc = run_kani(ov, kobs, a.jobs, tmo)
            if all(r["status"] == "missing" for r in kres.values()):
                log(kani_raw[-6000:])
            for o in kobs:
                r = kres[o["harness"]]
                results[o["id"]] = r
                c = classify_kani(r, o)
                r["class"] = c
                log("[kani ] %-8s %-34s %s (%s checks, %ss)%s" % (o["id"], o["harness"], r["status"], r["checks"], r["time_s"],
                                                               "" if c == "ok" else " -> " + c))
                if c == "ok":
                    if o.get("expect_stub", True) and o.get("needs_fmt_stub", False) and not r["stubs"]:
                        undecided.append((o, "expected Stub line missing"))
                elif c == "violation":
                    violations.append(o)
                elif c == "vacuous":
                    undecided.append((o, "cover property unsatisfiable: harness assumptions exclude everything"))
                else:
                    undecided.append((o, r["status"] + " " + "; ".join(f["check"] for f in r["failed_checks"])[:300] + r["raw"][-300:]))
        # ---- violations: counterexample + native replay ----
        findings = load_findings()
        real_violations = []
        for o in violations:
            r = results[o["id"]]
            if o["backend"] == "kani":
                checks = [f["check"] for f in r["failed_checks"] if not any(re.search(p, f["check"]) for p in UNDECIDED_PATTERNS)]
            else:
                checks = [m.splitlines()[0] for m in r["messages"] if not m.startswith("error: aborting due to")]
            listed = [f for f in findings if f["property"] == pid and f["obligation"] == o["id"]]
            if listed and all(any(f["check"] and f["check"] in c for f in listed) for c in checks):
                for f in listed:
                    log("KNOWN-FINDING: property=%s obligation=%s %s" % (pid, o["id"], f["what"]))
                known.append(o)
                continue
            tests, verdict, confirmed = [], "no-failing-input-found", False
            body = []
            if o["backend"] == "kani":
                body = ["%s  %s" % (f["check"], f["loc"]) for f in r["failed_checks"]]
                target = o
            else:
                body = sum([m.splitlines() for m in r["messages"]], [])
                target = next((k for k in registry.OBLIGATIONS if k["id"] == o.get("paired")), None)
            if target is not None and not a.no_replay_search:
                try:
                    if not target.get("level") == "probe-only":
                        ov2 = make_overlay(os.path.join(tmp, "ce"))
                        attach_kani_modules(ov2, [target["module"]], KANI_DIR)
                        tests = kani_playback_print(ov2, target, target.get("timeout", 600))
                        shutil.rmtree(ov2, ignore_errors=True)
                    tests = tests + registry.probes_for(target)
                    if tests:
                        pres, pout = native_playback(tmp, target["module"], tests)
                        failing = [n for n, failed, _ in pres if failed]
                        if failing:
                            confirmed = True
                            verdict = "counterexample replayed natively on the real code: " + ", ".join(failing)
                            tests = [t for t in tests if any(n in t for n in failing)][:3]
                            verdict = "counterexample replayed natively on the real code (%d failing inputs, first %d kept): %s" % (
                                len(failing), len(tests), ", ".join(failing[:3]))
                        else:
                            verdict = "verifier counterexample did not reproduce natively; no-failing-input-found"
                except Exception as e:  # replay search is best effort
                    verdict = "replay search failed (%s); no-failing-input-found" % e
            path = write_replay(pid, o, o["backend"], body, tests, verdict)
            real_violations.append((o, path, confirmed))
        # ---- evidence ----
        n_ok = sum(1 for o in obs if (results[o["id"]].get("class") == "ok" or results[o["id"]]["status"] == "success"))
        ev = build_evidence(pid, tier, seed, obs, results, n_ok, real_violations, known, undecided, kani_cmd, kani_wall, overlay_diff,
                            time.time() - t_start)
        os.makedirs(EVID_DIR, exist_ok=True)
        # partial runs (--only) never overwrite the evidence of record
        # ... and neither do runs against a tree other than /repo (seeded-change evaluation)
        with open(os.path.join(EVID_DIR, (".partial-" if (a.only or REPO != "/repo") else "") + pid + ".json"), "w") as f:
            json.dump(ev, f, indent=1)
        # ---- verdict ----
        for o, path, confirmed in real_violations:
            log("VIOLATION property=%s replay=%s%s" % (pid, path, "" if confirmed else " no-failing-input-found"))
        if real_violations:
            return 1
        if undecided:
            for o, why in undecided:
                log("UNDECIDED obligation=%s %s" % (o["id"], why.replace("\n", " ")[:500]))
            return 2
        if len(results) != expected:
            log("UNDECIDED obligation count mismatch: %d results for %d registered" % (len(results), expected))
            return 2
        log("OK property=%s tier=%s obligations=%d discharged=%d known_findings=%d wall=%.1fs" % (
            pid, tier, len(obs) - len(known), n_ok, len(known), time.time() - t_start))
        return 0
    finally:
        if a.keep:
            log("kept scratch dir " + tmp)
        else:
            shutil.rmtree(tmp, ignore_errors=True)


def build_evidence(pid, tier, seed, obs, results, n_ok, violations, known, undecided, kani_cmd, kani_wall, overlay_diff, wall):
    samples = []
    funcs = set()
    solver_s = 0.0
    for o in obs:
        r = results.get(o["id"], {})
        funcs.update(o.get("functions", []))
        t = r.get("time_s") or 0
        solver_s += t
        e = {"obligation": o["id"], "backend": o["backend"], "unit": o.get("harness") or o.get("unit"), "level": o["level"],
             "bound": o.get("bound", ""), "status": r.get("status"), "solver_s": t, "desc": o.get("desc", ""),
             "functions": o.get("functions", [])}
        if o["backend"] == "kani":
            e["solver"] = "CBMC 6.11 / CaDiCaL (kani 0.68)"
            e["checks"] = r.get("checks")
            e["covers"] = r.get("covers")
        else:
            e["solver"] = "Verus 0.2026.09.13 / Z3"
            e["verified_fns"] = r.get("verified")
            e["unit_sha256_16"] = r.get("unit_hash")
            e["unit_lines"] = r.get("lines")
            e["extraction_rules_applied"] = r.get("rules")
            e["sliced_from"] = r.get("sliced")
            e["type_definitions_sliced"] = r.get("types")
            if r.get("consts"):
                e["real_constants_copied"] = r.get("consts")
            e["callee_contracts_copied_from_verifying_unit"] = r.get("assumes")
            if "vacuity_pass" in r:
                e["ensures_false_pass"] = r["vacuity_pass"]
        samples.append(e)
    proof_obs = [o for o in obs if o["level"] == "proof"]
    bounded_obs = [o for o in obs if o["level"] != "proof"]
    ok = lambda o: results.get(o["id"], {}).get("status") == "success"
    files = [os.path.join(KANI_DIR, m + ".rs") for m in sorted(set(o["module"] for o in obs if o["backend"] == "kani"))]
    files += [os.path.join(VERUS_DIR, "units", o["unit"] + ".rs") for o in obs if o["backend"] == "verus"]
    files += [os.path.join(VERUS_DIR, f) for f in sorted(os.listdir(VERUS_DIR)) if f.endswith(".rs")] if any(o["backend"] == "verus" for o in obs) else []
    scan = scan_assumptions(files)
    pinfo = registry.PROPERTIES.get(pid, {})
    cov = {
        # obligations CLAIMED to hold: an obligation listed as an open finding in known-findings.txt (it fails, and the
        # check says so with a KNOWN-FINDING line) is not claimed and is reported under known_findings_open instead
        "obligations": len(obs) - len(known),
        "known_findings_open": [{"obligation": o["id"], "what": o.get("desc", ""), "status": results.get(o["id"], {}).get("status")} for o in known],
        "discharged": sum(1 for o in obs if ok(o)),
        "proved_unbounded": sum(1 for o in proof_obs if ok(o)),
        "bounded_stand_ins": [{"obligation": o["id"], "bound": o.get("bound", ""), "status": results.get(o["id"], {}).get("status")} for o in bounded_obs],
        "checker_cmd": (kani_cmd + " ; " if kani_cmd else "") + "verus <unit>.rs --output-json --time (per extracted unit)",
        "trusted_base": TRUSTED_BASE,
        "functions_under_contract": sorted(funcs),
        "samples": samples,
        "solver_time_s": round(solver_s, 2),
        "kani_wall_s": round(kani_wall, 1),
        "overlay_added_lines": overlay_diff,
        "undecided_parts": pinfo.get("undecided", []),
        "known_findings": [o["id"] for o in known],
        "undecided_this_run": [{"obligation": o["id"], "why": w[:300]} for o, w in undecided],
        "violations_this_run": [{"obligation": o["id"], "replay": p, "replayed_natively": c} for o, p, c in violations],
        "mechanical_scan_of_contracts": scan,
        "exhaustive": False,
    }
    return {
        "property_id": pid, "tier": tier, "seed": seed, "level": pinfo.get("level", "proof"),
        "coverage": cov,
        "assumptions": pinfo.get("assumptions", []) + ["every line listed in coverage.mechanical_scan_of_contracts"],
        "wall_s": round(wall, 1),
        "violations": len(violations),
    }


if __name__ == "__main__":
    sys.exit(main(sys.argv[1:]))
