"""Mechanical extraction of real function bodies / match arms / macro templates from /repo/src
into Verus unit files (DESIGN.md 2.1 step 3 and 2.3).

A unit template (contracts/verus/units/<unit>.rs) is Verus source in which the *signatures and
contracts* are written by hand and every function *body* that is to be verified is pulled from
/repo/src at run time by a directive line:

  //@INCLUDE <file under contracts/verus>
  //@LOOP <n> <text>            loop annotation (invariant/decreases) for the n-th loop (1-based,
                                source order) of the next extracted body
  //@BODY file=<f.rs> fn=<name> [impl=<Type>] sig="<normalised signature>" [rules=<r1;r2;..>]
  //@ARM  file=<f.rs> fn=<name> [impl=<Type>] arm="<pattern prefix>" [rules=..]
  //@MACROFN file=<f.rs> macro=<name> args="<a>,<b>" [rules=..]     body of the fn inside a macro_rules! template
  //@VACUITY                    replaced by nothing; by `false,` in the ensures-false pass

The directive is replaced by the inner text of the extracted block (without its outer braces)
after the rewrite rules named in `rules=`. If an anchor is not found, or the real signature no
longer equals `sig`, LostAnchor is raised (reported as UNDECIDED, never as a violation).
"""
import os, re


class LostAnchor(Exception):
    pass


# ---------------------------------------------------------------------------------------------
# a tiny Rust lexer: enough to match braces/parens outside strings, chars and comments
# ---------------------------------------------------------------------------------------------
def code_mask(text):
    """mask[i] is True when text[i] is code (not inside string / char literal / comment)."""
    n = len(text)
    mask = [True] * n
    i = 0
    while i < n:
        c = text[i]
        if c == "/" and i + 1 < n and text[i + 1] == "/":
            j = text.find("\n", i)
            j = n if j < 0 else j
            for k in range(i, j):
                mask[k] = False
            i = j
        elif c == "/" and i + 1 < n and text[i + 1] == "*":
            j = text.find("*/", i + 2)
            j = n if j < 0 else j + 2
            for k in range(i, j):
                mask[k] = False
            i = j
        elif c == '"':
            j = i + 1
            while j < n and text[j] != '"':
                j += 2 if text[j] == "\\" else 1
            for k in range(i, min(j + 1, n)):
                mask[k] = False
            i = j + 1
        elif c == "r" and re.match(r'r#*"', text[i:i + 8]) and (i == 0 or not (text[i - 1].isalnum() or text[i - 1] == "_")):
            m = re.match(r'r(#*)"', text[i:])
            close = '"' + m.group(1)
            j = text.find(close, i + len(m.group(0)))
            j = n if j < 0 else j + len(close)
            for k in range(i, j):
                mask[k] = False
            i = j
        elif c == "'":
            if i + 1 < n and text[i + 1] == "\\":
                j = text.find("'", i + 2)
                if j == i + 2:  # '\''
                    j = text.find("'", i + 3)
                j = n if j < 0 else j
                for k in range(i, min(j + 1, n)):
                    mask[k] = False
                i = j + 1
            elif i + 2 < n and text[i + 2] == "'":
                for k in range(i, i + 3):
                    mask[k] = False
                i += 3
            else:
                i += 1  # lifetime / label
        else:
            i += 1
    return mask


def match_close(text, mask, i, open_c="{", close_c="}"):
    """text[i] == open_c; return index of the matching close_c."""
    depth = 0
    n = len(text)
    while i < n:
        if mask[i]:
            if text[i] == open_c:
                depth += 1
            elif text[i] == close_c:
                depth -= 1
                if depth == 0:
                    return i
        i += 1
    raise LostAnchor("unbalanced %s" % open_c)


def norm(s):
    s = re.sub(r"\s+", " ", s).strip()
    s = re.sub(r"\s*([(),:<>&])\s*", r"\1", s)
    s = s.replace(",)", ")")
    s = re.sub(r"^pub(\([^)]*\))?\s*", "", s)   # visibility is not part of the anchor
    return s


def find_impl_range(text, mask, impl):
    for m in re.finditer(r"\bimpl(?:<[^>]*>)?\s+(?:[\w:<>' ]+\s+for\s+)?%s(?:<[^>]*>)?\s*\{" % re.escape(impl), text):
        if not mask[m.start()]:
            continue
        o = m.end() - 1
        c = match_close(text, mask, o)
        yield (o, c)


def find_fn(text, mask, name, impl=None, within=None):
    ranges = list(find_impl_range(text, mask, impl)) if impl else [(0, len(text))]
    if within:
        ranges = [within]
    for (lo, hi) in ranges:
        for m in re.finditer(r"\bfn\s+%s\s*(?:<[^>(]*>)?\s*\(" % re.escape(name), text[lo:hi]):
            s = lo + m.start()
            if not mask[s]:
                continue
            # opening brace of the body: first '{' at paren depth 0 after the parameter list
            p = lo + m.end() - 1
            pc = match_close(text, mask, p, "(", ")")
            j = pc
            while j < len(text) and not (mask[j] and text[j] == "{"):
                if mask[j] and text[j] == ";":
                    break
                j += 1
            if j >= len(text) or text[j] != "{":
                continue
            c = match_close(text, mask, j)
            return s, j, c
    raise LostAnchor("fn %s%s not found" % ((impl + "::") if impl else "", name))


def find_arm(text, mask, lo, hi, pattern, nth=1):
    """Within text[lo:hi], find `<pattern> ... =>` and return (start, end) of the arm's body:
    a block's inner range, or an expression up to the terminating comma."""
    for m in re.finditer(re.escape(pattern) + r"(?![\w:])", text[lo:hi]):
        s = lo + m.start()
        if not mask[s]:
            continue
        if s > 0 and (text[s - 1].isalnum() or text[s - 1] in "_:"):
            continue
        # must be the start of a pattern: previous non-space char is one of { , | or newline-start
        # scan forward to `=>` at depth 0
        j = s + len(pattern)
        depth = 0
        ok = False
        while j < hi - 1:
            if mask[j]:
                ch = text[j]
                if ch in "({[":
                    depth += 1
                elif ch in ")}]":
                    depth -= 1
                    if depth < 0:
                        break
                elif ch == "=" and text[j + 1] == ">" and depth == 0:
                    ok = True
                    break
                elif ch in ";":
                    break
            j += 1
        if not ok:
            continue
        nth -= 1
        if nth > 0:
            continue
        # the pattern text between s and j must not contain an earlier arm (i.e. no '=>' seen) - guaranteed
        k = j + 2
        while text[k].isspace():
            k += 1
        lab = re.match(r"'\w+\s*:\s*", text[k:])
        if lab:
            k += lab.end()
        if text[k] == "{":
            c = match_close(text, mask, k)
            return ("block", k + 1, c)
        # expression arm
        e = k
        depth = 0
        while e < hi:
            if mask[e]:
                ch = text[e]
                if ch in "({[":
                    depth += 1
                elif ch in ")}]":
                    if depth == 0:
                        break
                    depth -= 1
                elif ch == "," and depth == 0:
                    break
            e += 1
        return ("expr", k, e)
    raise LostAnchor("match arm `%s` not found" % pattern)


def find_macro(text, mask, name):
    m = re.search(r"macro_rules!\s+%s\s*\{" % re.escape(name), text)
    if not m:
        raise LostAnchor("macro_rules! %s not found" % name)
    o = m.end() - 1
    c = match_close(text, mask, o)
    inner = text[o + 1:c]
    # single rule: (<params>) => { transcriber }
    pm = re.match(r"\s*\(([^)]*)\)\s*=>\s*\{", inner)
    if not pm:
        raise LostAnchor("macro %s: unsupported shape" % name)
    params = re.findall(r"\$(\w+)\s*:\s*\w+", pm.group(1))
    ts = o + 1 + pm.end() - 1
    tc = match_close(text, mask, ts)
    return params, text[ts + 1:tc]


def expand_macro_calls(body, filetext, filemask):
    """Expand invocations `name!(args)` of macro_rules! macros that are defined in the same file
    with a single rule (R5). Only macros whose definition is found are expanded."""
    count = 0
    for _ in range(20):
        m = None
        for mm in re.finditer(r"\b(\w+)!\s*\(", body):
            nm = mm.group(1)
            if re.search(r"macro_rules!\s+%s\b" % re.escape(nm), filetext):
                m = mm
                break
        if not m:
            break
        bm = code_mask(body)
        p = m.end() - 1
        pc = match_close(body, bm, p, "(", ")")
        args = [a.strip() for a in body[p + 1:pc].split(",") if a.strip()]
        params, tr = find_macro(filetext, filemask, m.group(1))
        tr = tr.strip()
        if tr.startswith("{") and tr.endswith("}"):
            tr = tr[1:-1]
        for prm, arg in zip(params, args):
            tr = re.sub(r"\$%s\b" % re.escape(prm), arg, tr)
        body = body[:m.start()] + "{" + tr + "}" + body[pc + 1:]
        count += 1
    return body, count


# ---------------------------------------------------------------------------------------------
# rewrite rules (closed list, DESIGN.md 2.3)
# ---------------------------------------------------------------------------------------------
def replace_calls(body, head_re, repl):
    """replace `<head>( balanced )` by repl; returns (text, count)."""
    count = 0
    while True:
        bm = code_mask(body)
        found = None
        for m in re.finditer(head_re + r"\s*\(", body):
            if bm[m.start()]:
                found = m
                break
        if not found:
            return body, count
        p = found.end() - 1
        pc = match_close(body, bm, p, "(", ")")
        body = body[:found.start()] + repl + body[pc + 1:]
        count += 1


def rule_R1(body, arg=None):
    body, n1 = replace_calls(body, r"\bformat!", "fmt_opaque()")
    # "literal".to_string() used only as error message text
    body, n2 = re.subn(r'"(?:[^"\\]|\\.)*"\s*\.to_string\(\)', "fmt_opaque()", body)
    return body, n1 + n2


def rule_R2(body, arg=None):
    n = 0

    def f(m):
        nonlocal n
        n += 1
        names = [x.strip() for x in m.group(1).split(",")]
        t = "__t%d" % n
        return "let %s = %s; " % (t, m.group(2)) + " ".join("let %s = %s[%d];" % (nm, t, i) for i, nm in enumerate(names))
    body = re.sub(r"let\s*\[([^\]]*)\]\s*=\s*([^;]+);", f, body)
    return body, n


def rule_R3(body, arg):
    frm, to = arg.split("=>")
    frm, to = frm.strip(), to.strip()
    if " as " not in frm and not re.match(r"^[A-Z_]+$", frm):
        raise ValueError("R3 only rewrites casts and named constants: %r" % frm)
    n = body.count(frm)
    if n == 0:
        raise LostAnchor("R3: cast site `%s` not found" % frm)
    return body.replace(frm, to), n


def rule_R4(body, arg=None):
    n = 0
    body, k = re.subn(r"\bunsafe\s*\{", "{", body)
    n += k
    body, k = re.subn(r"#\[inline[^\]]*\]\s*", "", body)
    n += k
    # #[cfg(feature = "debug")] followed by a block or a statement
    while True:
        m = re.search(r'#\[cfg\(feature\s*=\s*"debug"\)\]\s*', body)
        if not m:
            break
        bm = code_mask(body)
        j = m.end()
        if body[j] == "{":
            c = match_close(body, bm, j)
            body = body[:m.start()] + body[c + 1:]
        else:
            c = j
            depth = 0
            while c < len(body):
                if bm[c]:
                    if body[c] in "({[":
                        depth += 1
                    elif body[c] in ")}]":
                        depth -= 1
                    elif body[c] == ";" and depth == 0:
                        break
                c += 1
            body = body[:m.start()] + body[c + 1:]
        n += 1
    return body, n


def rule_R6(body, arg=None):
    """Float arm of impl_arith: `Object::float(<f64 expr>, gc)` -> float_arm_<op>(self, rhs, gc) (proved by Kani)."""
    n = 0
    m = re.search(r"Object::float\(self\.as_f64_unchecked\(\)\s*(\S+)\s*rhs\.as_f64_unchecked\(\),\s*gc\)", body)
    if m:
        body = body[:m.start()] + "float_arm(self, rhs, gc)" + body[m.end():]
        n = 1
    return body, n


def rule_R7(body, arg=None):
    """arm units: assignments to the enclosing function's `final_result` go through a &mut parameter."""
    body, n = re.subn(r"\bfinal_result\s*=\s*", "*final_result = ", body)
    body, k = re.subn(r"\[final_result(\s*[,\]])", r"[*final_result\1", body)
    return body, n + k


def rule_SUB(body, arg, optional=False):
    """R8 type/name adaptation: literal replacement `from=>to`, must match at least once."""
    frm, to = arg.split("=>")
    n = body.count(frm.strip())
    if n == 0 and not optional:
        raise LostAnchor("R8: text `%s` not found" % frm.strip())
    return body.replace(frm.strip(), to.strip()), n


def rule_SUBW(body, arg, optional=False):
    """R8w: as R8, but blind to layout: whitespace in `from` and in the source is ignored (rustfmt breaks long
    method chains over several lines); must match at least once."""
    frm, to = arg.split("=>")
    chars = [re.escape(ch) for ch in re.sub(r"\s+", "", frm)]
    body, n = re.subn(r"\s*".join(chars), lambda m: to.strip(), body)
    if n == 0 and not optional:
        raise LostAnchor("R8w: text `%s` not found" % frm.strip())
    return body, n


def rule_R10(body, arg=None):
    """`for _ in <range>`: name the iterator so that a loop invariant can mention the iteration count."""
    return re.subn(r"\bfor\s+_\s+in\s+", "for _ in __it: ", body)


def rule_R11(body, arg=None):
    """std calls without a vstd specification are routed through helpers carrying the std-documented
    contract: `X.reverse()` -> `vec_reverse(&mut X)`."""
    body, n = re.subn(r"\b(\w+)\.reverse\(\)", r"vec_reverse(&mut \1)", body)
    body, k = re.subn(r"std::mem::take\(", "mem_take_vec(", body)
    return body, n + k


def rule_R6n(body, arg=None):
    """float arm of Negate and the unspecified std call checked_neg"""
    body, n = re.subn(r"Object::float\(-left\.as_f64_unchecked\(\),\s*gc\)", "float_neg_arm(left, gc)", body)
    body, k = re.subn(r"left\.as_int\(\)\.checked_neg\(\)", "checked_neg_isize(left.as_int())", body)
    return body, n + k


def rule_R1p(body, arg=None):
    """`panic!(..)` / `unimplemented!(..)` / `unreachable!(..)`: a call of `vpanic()`, whose contract is
    `requires false` - i.e. the unit must PROVE the panic unreachable under the function's precondition."""
    n = 0
    for mac in ("panic", "unimplemented", "unreachable"):
        body, k = replace_calls(body, r"\b%s!" % mac, "vpanic()")
        n += k
    return body, n


def rule_R4d(body, arg=None):
    """debug_assert!/debug_assert_eq! lines are dropped (they do not exist in release builds; what they
    assert is part of the unit's own requires/ensures where it matters)."""
    n = 0
    for mac in ("debug_assert_eq", "debug_assert_ne", "debug_assert"):
        body, k = replace_calls(body, r"\b%s!" % mac, "()")
        n += k
    return body, n


def rule_R12(body, arg=None):
    """`X.iter().last()` -> `X.last()` (same element for a slice; Verus has no iterator adapters)"""
    return re.subn(r"\.iter\(\)\.last\(\)", ".last()", body)


def rule_R13(body, arg):
    """`for X in V {` (consuming iteration over a Vec) -> index loop over the same elements in the same order:
    `let __v = V; for __k in __it: 0..__v.len() { let X = __v[__k];`"""
    x, v = [t.strip() for t in arg.split(" in ")]
    pat = r"for\s+%s\s+in\s+%s\s*\{" % (re.escape(x), re.escape(v))
    return re.subn(pat, "let __v = %s; for __k in __it: 0..__v.len() { let %s = __v[__k];" % (v, x), body)


def rule_R13r(body, arg):
    """`for X in V {` where V is a `&Vec<T>` / `&[T]` (or `.iter()` of one): borrowing iteration -> index loop over the
    same elements in the same order: `let __v_X = V; for __k_X in __it_X: 0..__v_X.len() { let X = &__v_X[__k_X];`"""
    x, v = [t.strip() for t in arg.split(" in ", 1)]
    chars = [re.escape(ch) for ch in re.sub(r"\s+", "", "for %s in %s {" % (x, v))]
    src = v[:-len(".iter()")] if v.endswith(".iter()") else v
    rep = "let __v_%s = %s; for __k_%s in __it_%s: 0..__v_%s.len() { let %s = &__v_%s[__k_%s];" % (x, src, x, x, x, x, x, x)
    body, n = re.subn(r"\s*".join(chars), lambda m: rep, body)
    if n == 0:
        raise LostAnchor("R13r: loop `for %s in %s` not found" % (x, v))
    return body, n


def rule_R4s(body, arg=None):
    """`X.shrink_to_fit();` is dropped: it only changes capacity (no vstd specification, no observable effect)"""
    return re.subn(r"[\w\.]+\.shrink_to_fit\(\);", "", body)


def rule_R14(body, arg):
    """`break 'label;` where the labeled block is the ENTIRE arm (nothing follows it in the arm, and the function
    ends with Ok(()) after the match): equivalent to leaving the arm -> `return Ok(());` (Verus has no labeled blocks)"""
    return re.subn(r"break\s+'%s\s*;" % re.escape(arg.strip()), "return Ok(());", body)


RULES = {"R13r": rule_R13r, "R14": rule_R14, "R4s": rule_R4s, "R13": rule_R13, "R4d": rule_R4d, "R12": rule_R12, "R1p": rule_R1p, "R6n": rule_R6n, "R10": rule_R10, "R11": rule_R11, "R1": rule_R1, "R2": rule_R2, "R3": rule_R3, "R4": rule_R4, "R6": rule_R6, "R7": rule_R7, "R8": rule_SUB, "R8w": rule_SUBW,
         # R8o / R8wo: the same adaptations where the construct may legitimately be absent (nothing to adapt then; what
         # remains is verified as it stands)
         "R8o": lambda b, a: rule_SUB(b, a, True), "R8wo": lambda b, a: rule_SUBW(b, a, True)}


def apply_rules(body, rules, counts):
    for r in rules:
        r = r.strip()
        if not r:
            continue
        m = re.match(r"(R\d+[a-z]{0,2})(?:\[(.*)\])?$", r, re.S)
        if not m or m.group(1) not in RULES:
            raise ValueError("unknown rule %r" % r)
        body, n = RULES[m.group(1)](body, m.group(2))
        counts[m.group(1)] = counts.get(m.group(1), 0) + n
    return body


def insert_loop_annotations(body, loops, pre=None, post=None):
    """loops: {ordinal: text}. Insert text before the `{` of the n-th loop (for/while/loop, source order);
    pre: {ordinal: ghost statements} inserted immediately before the loop statement;
    post: {ordinal: ghost statements} inserted immediately after the loop's closing brace."""
    pre = pre or {}
    post = post or {}
    if not loops and not pre and not post:
        return body
    bm = code_mask(body)
    heads = [m for m in re.finditer(r"\b(for|while|loop)\b", body) if bm[m.start()]]
    ins = []   # (position in the ORIGINAL body, order, text)
    for n in sorted(set(loops) | set(pre) | set(post)):
        if n > len(heads):
            raise LostAnchor("loop #%d not found (body has %d loops)" % (n, len(heads)))
        h = heads[n - 1]
        if n in pre:
            # statement start: R13 may have put `let __v = ..;` right before the loop keyword on the same line
            ins.append((h.start(), 0, "\n" + pre[n] + "\n"))
        if n not in loops and n not in post:
            continue
        j = h.end()
        depth = 0
        while j < len(body):
            if bm[j]:
                if body[j] in "([":
                    depth += 1
                elif body[j] in ")]":
                    depth -= 1
                elif body[j] == "{" and depth == 0:
                    break
            j += 1
        if n in loops:
            ins.append((j, 1, "\n" + loops[n] + "\n"))
        if n in post:
            c = match_close(body, bm, j)
            ins.append((c + 1, 2, "\n" + post[n] + "\n"))
    out = body
    for pos, _, text in sorted(ins, key=lambda t: (t[0], t[1]), reverse=True):
        out = out[:pos] + text + out[pos:]
    return out


def iter_match_arms(text, mask, lo, hi):
    """The arms of the FIRST match expression in text[lo:hi]: yields (pattern_text, body_start, body_end) where
    [body_start, body_end) covers everything after `=>` up to (not including) the arm's terminating comma / the
    next arm (label and braces of a block arm included)."""
    m = None
    for mm in re.finditer(r"\bmatch\b", text[lo:hi]):
        if mask[lo + mm.start()]:
            m = mm
            break
    if m is None:
        raise LostAnchor("no match expression found")
    j = lo + m.end()
    while not (mask[j] and text[j] == "{"):
        j += 1
    close = match_close(text, mask, j)
    pos = j + 1
    arms = []
    while True:
        while pos < close and (text[pos].isspace() or not mask[pos] or text[pos] == ","):
            pos += 1
        if pos >= close:
            break
        s = pos
        depth = 0
        k = s
        while k < close:
            if mask[k]:
                ch = text[k]
                if ch in "({[":
                    depth += 1
                elif ch in ")}]":
                    depth -= 1
                elif ch == "=" and text[k + 1] == ">" and depth == 0:
                    break
            k += 1
        if k >= close:
            raise LostAnchor("malformed match arm")
        pattern = text[s:k].strip()
        b = k + 2
        e = b
        while text[e].isspace():
            e += 1
        lab = re.match(r"'\w+\s*:\s*", text[e:])
        if lab:
            e += lab.end()
        if text[e] == "{":
            e = match_close(text, mask, e) + 1
        else:
            depth = 0
            while e < close:
                if mask[e]:
                    ch = text[e]
                    if ch in "({[":
                        depth += 1
                    elif ch in ")}]":
                        if depth == 0:
                            break
                        depth -= 1
                    elif ch == "," and depth == 0:
                        break
                e += 1
        arms.append((pattern, b, e))
        pos = e
    return arms


def template_fn_header(template_text, name):
    """(signature, requires, ensures) of fn `name` in a unit template (header = text up to the line that is just `{`)."""
    m = re.search(r"(?m)^\s*(?:pub\s+)?fn\s+%s\s*\(" % re.escape(name), template_text)
    if not m:
        raise LostAnchor("contract of %s not found in its unit" % name)
    b = re.compile(r"(?m)^\s*\{\s*$").search(template_text, m.end())
    head = template_text[m.start():b.start()]
    head = re.sub(r"//[^\n]*", "", head)
    ri = head.find("requires")
    ei = head.find("ensures")
    sig = head[:ri if ri >= 0 else ei]
    req = head[ri + len("requires"):ei] if ri >= 0 else ""
    ens = head[ei + len("ensures"):]
    return norm(sig), norm(req).rstrip(","), ens

def parse_kv(s):
    kv = {}
    for m in re.finditer(r'(\w+)=("((?:[^"\\]|\\.)*)"|\S+)', s):
        kv[m.group(1)] = m.group(3) if m.group(3) is not None else m.group(2)
    return kv



def slice_type(text, mask, name, kv):
    """R9 (type slicing): the REAL definition of enum / struct / type alias `name`, verbatim except: attributes and
    comments dropped (the directive's attrs= are put in their place), visibility made `pub` (item and every named
    field), explicit discriminants `= <literal>` of enum variants dropped, `extra=` field text appended (ghost fields)."""
    m = None
    for mm in re.finditer(r"(?m)^\s*(?:pub(?:\([^)]*\))?\s+)?(enum|struct|type)\s+%s\b" % re.escape(name), text):
        if mask[mm.start(1)]:
            m = mm
            break
    if m is None:
        raise LostAnchor("type %s not found" % name)
    kind = m.group(1)
    if kind == "type":
        e = text.index(";", m.end())
        return "pub type %s%s;" % (name, re.sub(r"\s+", " ", text[m.end():e]))
    o = m.end()
    while not (mask[o] and text[o] in "{;("):
        o += 1
    if text[o] != "{":
        raise LostAnchor("type %s is not a braced definition" % name)
    c = match_close(text, mask, o)
    inner = "".join(ch if mask[i] else (ch if ch == "\n" else " ") for i, ch in enumerate(text[o + 1:c], o + 1))
    inner = re.sub(r"(?m)^\s*#\[[^\n]*\]\s*$", "", inner)
    lines = [l.rstrip() for l in inner.split("\n") if l.strip()]
    outl = []
    for l in lines:
        if kind == "struct":
            l = re.sub(r"^(\s*)(?:pub(?:\([^)]*\))?\s+)?(\w+\s*:)", r"\1pub \2", l)
        else:
            l = re.sub(r"\s*=\s*(?:0[bx])?[0-9a-fA-F_]+\s*,", ",", l)
        outl.append(l)
    if kv.get("extra"):
        outl.append("    " + kv["extra"])
    head = (kv["attrs"] + "\n") if kv.get("attrs") else ""
    return "%spub %s %s {\n%s\n}" % (head, kind, name, "\n".join(outl))


def expand_types(txt, load, meta):
    def f(m):
        kv = parse_kv(m.group(1))
        t, mk = load(kv["file"])
        meta["rules"]["R9"] = meta["rules"].get("R9", 0) + 1
        meta.setdefault("types", []).append("%s:%s" % (kv["file"], kv["name"]))
        return "// ---- real definition: %s %s (R9) ----\n%s" % (kv["file"], kv["name"], slice_type(t, mk, kv["name"], kv))
    return re.sub(r"(?m)^\s*//@TYPE\s+([^\n]*)$", f, txt)

def const_value(expr):
    """R16: a constant initializer made only of integer literals, the MAX of the unsigned types, casts and
    + - * / << >> | & is replaced by its value (Verus does not evaluate shifts without bit-vector mode, which would
    turn a harmless `1 << 16` into an unprovable obligation); anything else is copied as it is."""
    e = expr
    for t, bits in (("u8", 8), ("u16", 16), ("u32", 32), ("u64", 64), ("usize", 64)):
        e = re.sub(r"\b%s::MAX\b" % t, str((1 << bits) - 1), e)
    e = re.sub(r"\bas\s+(?:u8|u16|u32|u64|usize|i64|i32)\b", "", e)
    e = re.sub(r"(?<=[0-9a-fA-F])_(?=[0-9a-fA-F])", "", e)
    e = re.sub(r"(\d)(?:u8|u16|u32|u64|usize)\b", r"\1", e)
    if not re.fullmatch(r"[0-9a-fA-FxX\s+\-*/<>|&()]+", e) or re.search(r"[a-fA-F]", re.sub(r"0[xX][0-9a-fA-F]+", "", e)):
        return expr
    try:
        v = eval(e.replace("/", "//"), {"__builtins__": {}}, {})
    except Exception:
        return expr
    return "%d /* = %s */" % (v, expr) if isinstance(v, int) and 0 <= v < (1 << 64) else expr


def build_unit(template_path, src_dir, verus_dir):
    if not os.path.exists(template_path):
        raise LostAnchor("unit template %s missing" % template_path)
    out = []
    meta = {"rules": {}, "sliced": []}
    loops = {}
    preloops = {}
    postloops = {}
    ghosts = []
    cache = {}
    consts = {}

    def load(f):
        if f not in cache:
            p = os.path.join(src_dir, f)
            if not os.path.exists(p):
                raise LostAnchor("source file %s missing" % f)
            t = open(p).read()
            cache[f] = (t, code_mask(t))
        return cache[f]

    def flatten(text, depth=0):
        """//@INCLUDE lines replaced (recursively) by the lines of the included file, so that directives inside
        included files (//@TYPE, //@ASSUMES, nested //@INCLUDE) are processed like the template's own."""
        if depth > 5:
            raise LostAnchor("include cycle")
        res = []
        for line in text.splitlines():
            s = line.strip()
            if not s.startswith("//@INCLUDE"):
                res.append(line)
                continue
            inc = open(os.path.join(verus_dir, s.split()[1])).read()
            # `except=f1,f2`: the ASSUMED contract of these functions is left out because this unit verifies their
            # real bodies itself
            em = re.search(r"except=(\S+)", s)
            if em:
                for fname in em.group(1).split(","):
                    am = re.search(r"(?m)^\s*//@ASSUMES[^\n]*\bfn=%s\b[^\n]*\n" % re.escape(fname), inc)
                    if am:
                        inc = inc[:am.start()] + inc[am.end():]
                        continue
                    imask = code_mask(inc)
                    fs, bo, bc = find_fn(inc, imask, fname)
                    # include the attribute lines / doc comments directly above
                    start = inc.rfind("\n", 0, fs) + 1
                    while True:
                        prev = inc.rfind("\n", 0, start - 1) + 1
                        pl = inc[prev:start].strip()
                        if pl.startswith("#[") or pl.startswith("//"):
                            start = prev
                        else:
                            break
                    inc = inc[:start] + inc[bc + 1:]
            res.extend(flatten(inc, depth + 1))
        return res

    for line in flatten(open(template_path).read()):
        s = line.strip()
        if False:
            pass
        elif s.startswith("//@TYPE"):
            out.append(expand_types(line, load, meta))
        elif s.startswith("//@LOOP"):
            m = re.match(r"//@LOOP\s+(\d+)\s+(.*)", s)
            loops[int(m.group(1))] = loops.get(int(m.group(1)), "") + " " + m.group(2)
        elif s.startswith("//@GHOST"):
            m = re.match(r'//@GHOST\s+(after|before|before_all|after_all)="((?:[^"\\]|\\.)*)"\s+(.*)', s)
            ghosts.append((m.group(2), m.group(3), m.group(1)))
        elif s.startswith("//@PRELOOP"):
            m = re.match(r"//@PRELOOP\s+(\d+)\s+(.*)", s)
            preloops[int(m.group(1))] = preloops.get(int(m.group(1)), "") + " " + m.group(2)
        elif s.startswith("//@POSTLOOP"):
            m = re.match(r"//@POSTLOOP\s+(\d+)\s+(.*)", s)
            postloops[int(m.group(1))] = postloops.get(int(m.group(1)), "") + " " + m.group(2)
        elif s.startswith("//@VACUITY"):
            out.append("/*@VACUITY*/")
        elif s.startswith("//@ASSUMES"):
            # the contract of a function that ANOTHER unit verifies, as far as this unit needs it: signature taken from
            # that unit's template; that unit must require exactly `req` and ensure the clause `clause` literally
            kv = parse_kv(s[len("//@ASSUMES"):])
            tp = os.path.join(verus_dir, "units", kv["unit"])
            if not os.path.exists(tp):
                raise LostAnchor("unit template %s missing" % kv["unit"])
            ttext = open(tp).read()
            if kv.get("after"):
                # disambiguates equally named methods of different impls: search from this marker on
                k0 = ttext.find(kv["after"])
                if k0 < 0:
                    raise LostAnchor("marker `%s` not found in %s" % (kv["after"], kv["unit"]))
                ttext = ttext[k0:]
            if kv.get("full"):
                # the WHOLE contract (signature, requires, ensures) exactly as the verifying unit states it
                m0 = re.search(r"(?m)^\s*(?:pub\s+)?fn\s+%s\s*\(" % re.escape(kv["fn"]), ttext)
                if not m0:
                    raise LostAnchor("contract of %s not found in its unit" % kv["fn"])
                b0 = re.compile(r"(?m)^\s*\{\s*$").search(ttext, m0.end())
                head = re.sub(r"(?m)^\s*//[^\n]*\n", "", ttext[m0.start():b0.start()])
                out.append("    // PROVED-BY: unit %s (fn %s, real body) - contract copied verbatim (//@ASSUMES full)" % (kv["unit"][:-3], kv["fn"]))
                out.append("    #[verifier::external_body]\n" + head.rstrip() + "\n    { unimplemented!() }")
                meta.setdefault("assumes", []).append("%s:%s (full)" % (kv["unit"], kv["fn"]))
                continue
            sig, req, ens = template_fn_header(ttext, kv["fn"])
            if req != norm(kv["req"]):
                raise LostAnchor("%s in %s requires `%s`, this unit assumes `%s`" % (kv["fn"], kv["unit"], req, kv["req"]))
            clauses = [kv["clause"]] + ([kv["clause2"]] if kv.get("clause2") else []) + ([kv["clause3"]] if kv.get("clause3") else [])
            if kv.get("clauseH"):
                # the static-height clause, with whatever constant the verifying unit proves (1: expression, 0: statement)
                hm = re.search(r"r is Ok ==> hstep\(old\(self\)\.height@, final\(self\)\.height@, (\d+)\)", ens)
                if not hm:
                    raise LostAnchor("%s in %s no longer ensures a static-height clause" % (kv["fn"], kv["unit"]))
                clauses.append(hm.group(0))
            for cl in clauses:
                if norm(cl) + "," not in norm(ens) + ",":
                    raise LostAnchor("%s in %s no longer ensures `%s`" % (kv["fn"], kv["unit"], cl))
            sig_txt = re.search(r"(?m)^\s*(?:pub\s+)?fn\s+%s\s*\([^\n]*" % re.escape(kv["fn"]), open(tp).read()).group(0).strip()
            out.append("    // PROVED-BY: unit %s (fn %s, real text of the arm)" % (kv["unit"][:-3], kv["fn"]))
            out.append("    #[verifier::external_body]\n    %s\n        requires %s\n        ensures %s\n    { unimplemented!() }" % (sig_txt, kv["req"], ", ".join(clauses)))
            meta.setdefault("assumes", []).append("%s:%s" % (kv["unit"], kv["fn"]))
        elif s.startswith("//@BODY") or s.startswith("//@ARM") or s.startswith("//@MACROFN") or s.startswith("//@PREFIX") or s.startswith("//@DISPATCH"):
            kind = s.split()[0][3:]
            kv = parse_kv(s[len(kind) + 3:])
            text, mask = load(kv["file"])
            rules = kv.get("rules", "").split(";") if kv.get("rules") else []
            if kind == "BODY":
                fs, bo, bc = find_fn(text, mask, kv["fn"], kv.get("impl"))
                sig = norm(text[fs:bo])
                if "sig" in kv and norm(kv["sig"]) != sig:
                    raise LostAnchor("signature of %s changed: `%s` (unit expects `%s`)" % (kv["fn"], sig, norm(kv["sig"])))
                body = text[bo + 1:bc]
                where = "%s:%s (lines %d-%d)" % (kv["file"], kv["fn"], text.count("\n", 0, bo) + 1, text.count("\n", 0, bc) + 1)
            elif kind == "DISPATCH":
                # R15 (arm outlining): the real function with the body of EVERY arm of its top-level match replaced by a
                # call of the function that holds that arm's real text in another unit (//@ARM there). Patterns,
                # scrutinee, arm order and everything outside the arms are the real text. An arm that the map does
                # not name, or a mapped arm that no longer exists, is a lost anchor.
                fs, bo, bc = find_fn(text, mask, kv["fn"], kv.get("impl"))
                sig = norm(text[fs:bo])
                if "sig" in kv and norm(kv["sig"]) != sig:
                    raise LostAnchor("signature of %s changed: `%s` (unit expects `%s`)" % (kv["fn"], sig, norm(kv["sig"])))
                amap = {}
                for ent in kv["map"].split("|"):
                    pat, call = ent.split("=>")
                    amap[norm(pat)] = call.strip()
                arms = iter_match_arms(text, mask, bo, bc)
                seen = set()
                body = ""
                cur = bo + 1
                for pattern, b, e in arms:
                    key = norm(pattern)
                    if key not in amap:
                        raise LostAnchor("arm `%s` of %s is not under contract (no arm unit is mapped to it)" % (pattern, kv["fn"]))
                    if key in seen:
                        raise LostAnchor("arm `%s` of %s occurs twice" % (pattern, kv["fn"]))
                    seen.add(key)
                    body += text[cur:b] + " { " + amap[key] + "?; }"
                    cur = e
                body += text[cur:bc]
                missing = set(amap) - seen
                if missing:
                    raise LostAnchor("arms %s of %s no longer exist" % (sorted(missing), kv["fn"]))
                meta["rules"]["R15"] = meta["rules"].get("R15", 0) + len(arms)
                where = "%s:%s dispatcher, %d arms outlined (lines %d-%d)" % (kv["file"], kv["fn"], len(arms), text.count("\n", 0, bo) + 1, text.count("\n", 0, bc) + 1)
            elif kind == "PREFIX":
                # the statements of a function from its first line up to (not including) the text `until`
                fs, bo, bc = find_fn(text, mask, kv["fn"], kv.get("impl"))
                sig = norm(text[fs:bo])
                if "sig" in kv and norm(kv["sig"]) != sig:
                    raise LostAnchor("signature of %s changed: `%s` (unit expects `%s`)" % (kv["fn"], sig, norm(kv["sig"])))
                cut = text.find(kv["until"], bo, bc)
                if cut < 0:
                    raise LostAnchor("prefix marker `%s` not found in %s" % (kv["until"], kv["fn"]))
                body = text[bo + 1:cut]
                where = "%s:%s prefix up to `%s` (lines %d-%d)" % (kv["file"], kv["fn"], kv["until"], text.count("\n", 0, bo) + 1, text.count("\n", 0, cut) + 1)
            elif kind == "ARM":
                fs, bo, bc = find_fn(text, mask, kv["fn"], kv.get("impl"))
                k, a, b = find_arm(text, mask, bo, bc, kv["arm"], int(kv.get("nth", "1")))
                body = text[a:b]
                if k == "expr":
                    body = body.strip()
                    if not body.endswith(";") and re.match(r"\w+!\s*\(", body):
                        body = body + ";"
                    elif kv.get("tail") != "value":
                        body = body + ";"
                where = "%s:%s arm %s (lines %d-%d)" % (kv["file"], kv["fn"], kv["arm"], text.count("\n", 0, a) + 1, text.count("\n", 0, b) + 1)
            else:
                params, tr = find_macro(text, mask, kv["macro"])
                # `args` names the invocation by its leading argument(s) (the function name); the remaining
                # arguments are taken from the real invocation, so a changed operator is verified, not lost.
                lead = [x.strip() for x in kv["args"].split(",")]
                inv = r"%s!\s*\(\s*%s\s*(?:,([^()]*))?\)" % (re.escape(kv["macro"]), r"\s*,\s*".join(re.escape(x) for x in lead))
                im = re.search(inv, text)
                if not im:
                    raise LostAnchor("invocation %s!(%s, ..) not found" % (kv["macro"], kv["args"]))
                args = lead + ([x.strip() for x in im.group(1).split(",")] if im.group(1) else [])
                kv["args"] = ",".join(args)
                for prm, arg in zip(params, args):
                    tr = re.sub(r"\$%s\b" % re.escape(prm), arg, tr)
                tm = code_mask(tr)
                fm = re.search(r"\bfn\s+(\w+)", tr)
                fs, bo, bc = find_fn(tr, tm, fm.group(1))
                sig = norm(tr[fs:bo])
                if "sig" in kv and norm(kv["sig"]) != sig:
                    raise LostAnchor("signature of macro fn changed: `%s` (unit expects `%s`)" % (sig, norm(kv["sig"])))
                body = tr[bo + 1:bc]
                meta["rules"]["R5"] = meta["rules"].get("R5", 0) + 1
                where = "%s:%s!(%s)" % (kv["file"], kv["macro"], kv["args"])
            if kind == "PREFIX":
                # local macro_rules! definitions inside the prefix are dropped (they are expanded where they are used)
                while True:
                    mm = re.search(r"macro_rules!\s+\w+\s*\{", body)
                    if not mm:
                        break
                    bm2 = code_mask(body)
                    c2 = match_close(body, bm2, mm.end() - 1)
                    body = body[:mm.start()] + body[c2 + 1:]
                    meta["rules"]["R4m"] = meta["rules"].get("R4m", 0) + 1
            body, nexp = expand_macro_calls(body, text, mask)
            if nexp:
                meta["rules"]["R5"] = meta["rules"].get("R5", 0) + nexp
            body = apply_rules(body, rules, meta["rules"])
            body = insert_loop_annotations(body, loops, preloops, postloops)
            loops = {}
            preloops = {}
            postloops = {}
            # ghost-only statements (erased by Verus) inserted after a named statement of the extracted body
            for anchor, text, where_ in ghosts:
                if where_.endswith("_all"):
                    # every occurrence (e.g. every `return res;` of an arm)
                    parts = body.split(anchor)
                    if len(parts) < 2:
                        raise LostAnchor("ghost anchor `%s` not found" % anchor)
                    ins = "\n" + text + "\n"
                    body = ((ins + anchor) if where_ == "before_all" else (anchor + ins)).join(parts)
                    meta["rules"]["GHOST"] = meta["rules"].get("GHOST", 0) + len(parts) - 1
                    continue
                at = body.find(anchor)
                if at < 0:
                    raise LostAnchor("ghost anchor `%s` not found" % anchor)
                if where_ == "after":
                    at += len(anchor)
                body = body[:at] + "\n" + text + "\n" + body[at:]
                meta["rules"]["GHOST"] = meta["rules"].get("GHOST", 0) + 1
            ghosts = []
            # R16: module-level constants of the same source file that the extracted text names
            for cname in sorted(set(re.findall(r"\b[A-Z][A-Z0-9_]{2,}\b", body))):
                cm = re.search(r"(?m)^(?:pub(?:\([a-z]+\))?\s+)?const\s+%s\s*:\s*([^=;]+?)\s*=\s*([^;]+);" % cname, text)
                if cm and mask[cm.start()]:
                    consts[cname] = "pub const %s: %s = %s;" % (cname, cm.group(1), const_value(cm.group(2).strip()))
            out.append("// ---- begin extracted: %s ----" % where)
            out.append(body)
            out.append("// ---- end extracted ----")
            meta["sliced"].append(where)
        else:
            out.append(line)
    res = "\n".join(out) + "\n"
    # R16: the real definition of each such constant is copied in, unless the unit (or a file it includes) already
    # defines a constant of that name
    add = [d for n, d in sorted(consts.items()) if not re.search(r"\bconst\s+%s\b" % n, res)]
    if add:
        k = res.find("verus! {")
        if k < 0:
            raise LostAnchor("no verus! block to place real constants in")
        k = res.find("\n", k) + 1
        res = res[:k] + "// ---- real constants (R16) ----\n" + "\n".join(add) + "\n" + res[k:]
        meta["rules"]["R16"] = len(add)
        meta["consts"] = [d for d in add]
    return res, meta


def falsify(text):
    if "/*@VACUITY*/" not in text:
        # no marker: cannot run the vacuity pass; make it fail loudly rather than pass silently
        return text + "\nverus!{ proof fn __vacuity_marker_missing() ensures false {} }\n"
    return text.replace("/*@VACUITY*/", "false, /*@VACUITY-ON*/")


if __name__ == "__main__":
    import sys
    t, m = build_unit(sys.argv[1], sys.argv[2] if len(sys.argv) > 2 else "/repo/src", os.path.dirname(os.path.dirname(os.path.abspath(sys.argv[1]))))
    sys.stdout.write(t)
    sys.stderr.write(repr(m) + "\n")
