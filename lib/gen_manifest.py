#!/usr/bin/env python3
"""Writes /verif/MANIFEST.json from lib/registry.py (claimed properties, not_applicable list)."""
import json, os, sys
VERIF = os.path.dirname(os.path.dirname(os.path.abspath(__file__)))
sys.path.insert(0, os.path.join(VERIF, "lib"))
import registry

checks = []
for pid in sorted(registry.PROPERTIES):
    p = registry.PROPERTIES[pid]
    if not any(pid in o["props"] for o in registry.OBLIGATIONS):
        continue
    checks.append({
        "property_id": pid,
        "quick_cmd": "bin/check %s --tier quick" % pid,
        "thorough_cmd": "bin/check %s --tier thorough" % pid,
        "evidence_file": "/verif/evidence/%s.json" % pid,
        "replay_cmd_template": "bin/check %s --replay {path}" % pid,
        "engine": "contracts",
        "level_claimed": {"category": p.get("level", "proof"), "text": p["claim"], "design_ref": p.get("design_ref", "DESIGN.md section 3")},
        "level_note": p["note"],
        "technique": p.get("technique", "contract-based deductive verification: Kani/CBMC harness-form contracts on the real crate + Verus on mechanically extracted functions"),
    })
m = {
    "version": 1,
    "setup_cmd": "true",
    "hooks": {
        "guard": "cfg(kani)",
        "enable": "no hook is committed to /repo: each check copies /repo's working tree to a scratch overlay and appends one `#[cfg(kani)] #[path=..] mod verif_kani;` line per module (set by cargo kani itself); Verus units are extracted from /repo/src at run time",
        "baseline_off_cmd": "cd /repo && cargo test --workspace --no-fail-fast --offline",
        "source_commits": [],
        "add_only": True,
    },
    "engines": [{"name": "contracts", "path": "/verif/bin/check", "serves_properties": [c["property_id"] for c in checks],
                 "kind_free_text": "driver: overlay + cargo kani (CBMC) harness-form contracts; extract.py + verus on sliced real functions; evidence + native replay of counterexamples"}],
    "checks": checks,
    "not_applicable": [{"property_id": k, "reason": v} for k, v in sorted(registry.NOT_APPLICABLE.items())],
    "notes": "See DESIGN.md. Exit 0 = all obligations discharged; exit 1 = VIOLATION (obligation failed; counterexample replayed natively where the back end gives one); exit 2 = UNDECIDED (lost anchor / tool limit), never an alarm.",
}
json.dump(m, open(os.path.join(VERIF, "MANIFEST.json"), "w"), indent=1)
print("wrote MANIFEST.json with", len(checks), "checks")
