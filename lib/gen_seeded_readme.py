#!/usr/bin/env python3
"""Writes /verif/seeded/README.md from seeded/*/meta.json: which check caught which seeded change."""
import json, os, glob
VERIF = os.path.dirname(os.path.dirname(os.path.abspath(__file__)))
rows = []
for m in sorted(glob.glob(os.path.join(VERIF, "seeded", "*", "meta.json"))):
    d = json.load(open(m))
    cr = d.get("check_result", {})
    caught = ", ".join(sorted(set(v["replay"].split("-", 1)[1] + ("" if v["native_replay"] else " (no native input)") for v in cr.get("violations", []))))
    und = "; ".join(u.split(" ")[0] for u in cr.get("undecided", []))
    patch = open(os.path.join(os.path.dirname(m), "patch.diff")).read()
    files = sorted(set(l[6:] for l in patch.splitlines() if l.startswith("+++ b/")))
    changed = [l[1:].strip() for l in patch.splitlines() if l.startswith("+") and not l.startswith("+++")]
    rows.append((d["seed"], d["property"], ", ".join(files), (changed[0] if changed else "")[:90].replace("|", "\\|"),
                 "**caught**" if cr.get("detected") else ("UNDECIDED (exit 2)" if cr.get("exit_code") == 2 else "MISSED (exit 0)"), caught or und or "-"))
out = ["# Seeded changes", "",
       "Each directory holds `patch.diff` (a change to /repo that compiles and passes the 99 existing tests), `demo_seed.rs` (an integration test that fails",
       "with the change and passes without it) and `meta.json` (what was run, what the property's check answered). The changes were written by",
       "independent sub-agents that were given only the property text and a scratch worktree. None is ever committed to /repo.",
       "Re-run one with `bin/seed-eval <PROPERTY> seeded/<id>/patch.diff seeded/<id>/demo_seed.rs`.", "",
       "| seed | property | file | first changed line | result | obligations that failed / were undecided |", "|---|---|---|---|---|---|"]
for r in rows:
    out.append("| %s | %s | %s | `%s` | %s | %s |" % r)
n = len(rows)
c = sum(1 for r in rows if r[4] == "**caught**")
u = sum(1 for r in rows if r[4].startswith("UNDECIDED"))
out += ["", "%d seeded changes: %d caught (exit 1 with a VIOLATION line), %d undecided (exit 2: the check lost an anchor or met a construct it has no rule for - neither accepted nor reported as a violation), %d missed (exit 0)." % (n, c, u, n - c - u), "",
        "The misses and the undecided ones are in code that no obligation decides or that the change rewrote beyond what the unit can follow (see DESIGN.md sections 0 and 7); they are kept here on purpose.", ""]
for m in sorted(glob.glob(os.path.join(VERIF, "seeded", "*", "meta.json"))):
    d = json.load(open(m))
    if d.get("confirmation_note"):
        out.append("* %s: %s" % (d["seed"], d["confirmation_note"]))
open(os.path.join(VERIF, "seeded", "README.md"), "w").write("\n".join(out) + "\n")
print("wrote seeded/README.md:", n, "seeds,", c, "caught")
