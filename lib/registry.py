import re
"""Registry of obligations: obligation id -> property, back end, unit, tier, level, bound.
One entry per machine-checked contract. `level` is "proof" (complete: loop-free full-domain Kani
harness, or unbounded Verus unit) or "bounded" (bound stated in `bound`; never counted as proved)."""

OBLIGATIONS = []

# "Arm twins": match arms of the big dispatch functions, sliced mechanically (same slicer as the Verus units, no
# rewrite rules except local macro expansion R5 and free variables -> parameters R7) and compiled by rustc as
# methods under cfg(kani) in the per-run overlay, so that Kani can check a bounded twin of an arm's contract on
# the REAL arm text whatever constructs it uses.
_BIN = [("Add", "add"), ("Subtract", "sub"), ("Divide", "div"), ("Multiply", "mul"), ("Gt", "gt"), ("Gte", "gte"), ("Lt", "lt"), ("Lte", "lte"),
        ("Eq", "eq"), ("Neq", "neq"), ("Modulo", "rem"), ("And", "and"), ("Or", "or")]
_FUSED = [("GtLocalConst", "gt"), ("GteLocalConst", "gte"), ("LtLocalConst", "lt"), ("LteLocalConst", "lte"), ("EqLocalConst", "eq"), ("NeqLocalConst", "neq"),
          ("AddLocalConst", "add"), ("SubtractLocalConst", "sub"), ("MultiplyLocalConst", "mul"), ("DivideLocalConst", "div"), ("ModuloLocalConst", "rem")]
_S0 = "(&mut self) -> Result<(), Error>"
_SG = "(&mut self, gc: &mut GC) -> Result<(), Error>"
_SC = "(&mut self, constants: &Vec<Object>) -> Result<(), Error>"
_SCG = "(&mut self, constants: &Vec<Object>, gc: &mut GC) -> Result<(), Error>"
_SCGF = "(&mut self, constants: &Vec<Object>, gc: &mut GC, final_result: Object) -> Result<(), Error>"
def _tw(op, sig, tail="Ok(())", rules=()):
    return dict(name="verif_arm_" + op.lower(), file="vm.rs", fn="run_code", impl="VM", arm="OpCode::" + op, sig=sig, tail=tail, rules=list(rules))
TWINS = {
    "vm": [_tw("Call", _S0), _tw("ReturnValue", _SCGF), _tw("Return", _SCGF)]
          + [_tw(o, _SG) for o, _ in _BIN] + [_tw(o, _SCG) for o, _ in _FUSED]
          + [_tw("Const", _SC), _tw("SetGlobal", _S0), _tw("GetGlobal", _S0), _tw("SetLocal", _S0), _tw("GetLocal", _S0), _tw("Jump", _S0),
             _tw("JumpIfFalse", _S0), _tw("Pop", "(&mut self, final_result: &mut Object) -> Result<(), Error>", rules=["R7"]),
             _tw("Null", _S0), _tw("True", _S0), _tw("False", _S0), _tw("Not", _S0), _tw("Negate", _SG), _tw("CallBuiltin", _SG), _tw("Array", _SG),
             _tw("IndexGet", _SG), _tw("IndexSet", _S0),
             _tw("Halt", "(&mut self, gc: &mut GC, final_result: Object) -> Result<Object, Error>", tail="")],
}


def K(id, props, module, harness, level="proof", bound="", tier="quick", functions=(), desc="", timeout=None, needs_fmt_stub=False, termination=False):
    o = dict(id=id, props=list(props), backend="kani", module=module, harness=harness, level=level, bound=bound, tier=tier,
             functions=list(functions), desc=desc, needs_fmt_stub=needs_fmt_stub, termination=termination)
    if timeout:
        o["timeout"] = timeout
    OBLIGATIONS.append(o)


def V(id, props, unit, level="proof", bound="", tier="quick", functions=(), desc="", paired=None, expect_verified=None, vacuity_quick=True, rlimit=30):
    OBLIGATIONS.append(dict(id=id, props=list(props), backend="verus", unit=unit, level=level, bound=bound, tier=tier,
                            functions=list(functions), desc=desc, paired=paired, expect_verified=expect_verified,
                            vacuity_quick=vacuity_quick, rlimit=rlimit))


# ---------------------------------------------------------------------------------------------
# C15 value encoding
# ---------------------------------------------------------------------------------------------
K("O15.1", ["C15", "C06"], "object", "c15_int_roundtrip", functions=["Object::int", "Object::as_int", "Object::tag", "Object::is_heap_allocated", "Object::with_type"],
  desc="forall v in [MIN_INT,MAX_INT]: int(v) has tag Int, reads back v, is immediate; debug_assert unreachable")
K("O15.1r", ["C15", "C06"], "object", "c15_as_int_range", functions=["Object::as_int"],
  desc="as_int of ANY 64-bit word lies in [MIN_INT, MAX_INT] (accessor contract assumed by the Verus units)")
K("O15.2", ["C15"], "object", "c15_int_injective", functions=["Object::int", "PartialEq::eq"],
  desc="int(a)==int(b) <=> a==b through the real PartialEq::eq")
K("O15.3", ["C15"], "object", "c15_null_bool", functions=["Object::null", "Object::bool", "Object::as_bool", "PartialEq::eq"],
  desc="null/bool tags, read-back, pairwise distinct words")
K("O15.4", ["C15", "C12"], "object", "c15_function_roundtrip", functions=["Object::function", "Object::as_function"],
  desc="forall (u32,u16): function descriptor read back, tag Function, injective")
K("O15.5", ["C15", "C02"], "object", "c15_tag_total", functions=["Object::tag", "Object::with_type", "Object::as_ptr", "Object::is_heap_allocated"],
  desc="tag total and correct on low bits <= 6; constructors never produce low bits 7; as_ptr(with_type(p,t)) == p")
K("O15.6", ["C15"], "object", "c15_cross_type", functions=["PartialEq::eq"],
  desc="immediates of different type never equal; same type equal iff same content")
K("O15.7", ["C15"], "object", "c15_float_roundtrip", functions=["Float::from_f64", "Float::read", "Float::destroy", "Object::as_f64", "Object::free", "allocate", "PartialEq::eq"],
  desc="all 2^64 f64 bit patterns read back bit-identically; == is IEEE equality; float never equals an immediate")
for _h, _c in (("c15_string_pair_eq", '("ab","ab")'), ("c15_string_pair_neq", '("a\\"","ab")'), ("c15_string_pair_utf8", '("\\u{e9}","")')):
    K("O15.8a." + _h.split("_")[-1], ["C15"], "object", _h, level="bounded", bound="one concrete pair of texts " + _c,
      functions=["String::from_string", "Object::as_str", "String::destroy", "PartialEq::eq"],
      desc="text read back, type String, equality by content, released once (CBMC double-free / use-after-free checks)")
K("O15.8b", ["C15"], "object", "c15_array_roundtrip", level="bounded", bound="arrays of <= 2 immediate elements",
  functions=["Array::from_vec", "Object::as_vec", "Array::destroy", "Object::free_recursive"],
  desc="array read back element by element, released once")


# ---------------------------------------------------------------------------------------------
# C06 operators
# ---------------------------------------------------------------------------------------------
for _h, _f in (("c06_add_int", "add"), ("c06_sub_int", "sub")):
    K("O06.1." + _f, ["C06", "C05"], "object", _h, functions=["Object::" + _f, "Object::int", "Object::as_int"], needs_fmt_stub=True,
      desc="forall a,b in range: Ok(int(a op b)) iff the exact (i128) result is in the 61-bit range, else Err; never wraps, never panics")
for _f in ("mul", "div", "rem"):
    K("O06.2k." + _f, ["C06", "C05"], "object", "c06_%s_int_total" % _f, functions=["Object::" + _f], needs_fmt_stub=True,
      desc="forall a,b in range: no panic; answer is an in-range Int or Err(TypeError); zero divisor is an error (exactness: Verus O06.2)")
for _f in ("lt", "lte", "gt", "gte", "eq", "neq"):
    K("O06.3." + _f, ["C06"], "object", "c06_%s_int" % _f, functions=["Object::" + _f, "PartialOrd::partial_cmp", "PartialEq::eq"], needs_fmt_stub=True,
      desc="forall a,b in range: comparison of int(a), int(b) equals the comparison of the integers a, b")
for _f in ("add", "sub"):
    K("O06.4a." + _f, ["C06"], "object", "c06_%s_float" % _f, functions=["Object::" + _f, "Object::float", "Float::from_f64"], needs_fmt_stub=True,
      desc="forall f64 x,y (all bit patterns): result bits == IEEE/Rust `x op y` bits (NaN payload aside)")
for _f in ("mul", "div", "rem"):
    K("O06.4t." + _f, ["C06", "C05"], "object", "c06_%s_float_total" % _f, functions=["Object::" + _f], needs_fmt_stub=True,
      desc="modular (as_f64_unchecked / Object::float replaced by their contracts, proved by O15.7): for all 2^64 x 2^64 payloads the Float arm answers Ok(Float), never an error or panic")
K("O06.4p", ["C06"], "object", "c06_float_points", level="bounded", bound="4 concrete operand pairs", needs_fmt_stub=True,
  functions=["Object::mul", "Object::div", "Object::rem"], desc="operand order / operator identity of float * / % at concrete points")
for _f in ("lt", "lte", "gt", "gte", "eq", "neq"):
    K("O06.4c." + _f, ["C06"], "object", "c06_%s_float" % _f, functions=["Object::" + _f, "PartialOrd::partial_cmp", "PartialEq::eq"], needs_fmt_stub=True,
      desc="forall f64 x,y: comparison equals the f64 comparison incl. signed zeros, infinities, NaN")
for _f in ("add", "sub", "mul", "div", "rem", "lt", "lte", "gt", "gte", "eq", "neq", "and", "or"):
    K("O06.5a." + _f, ["C06", "C05"], "object", "c06_cross_" + _f, needs_fmt_stub=True, functions=["Object::" + _f],
      desc="all 42 ordered pairs of distinct types, ALL payload words: Err(TypeError), no panic")
    K("O06.5b." + _f, ["C06", "C05"], "object", "c06_same_" + _f, needs_fmt_stub=True, functions=["Object::" + _f, "PartialOrd::partial_cmp", "PartialEq::eq"],
      desc="same type, unsupported operator -> TypeError; and/or truth table; bool order; ==/!= of null, bool, function, array decided by the words; no panic")
K("P06.2", [], "object", "c06_int_arith_exact_probe", level="probe-only", tier="probe",
  desc="executable form of O06.2 used only for native replay on the boundary lattice (never sent to CBMC)")
V("O06.2", ["C06"], "c06_arith", expect_verified=12, paired="P06.2",
  functions=["Object::checked_int", "Object::add", "Object::sub", "Object::mul", "Object::div", "Object::rem"],
  desc="unbounded, over mathematical integers: the Int arm of + - * / % answers the exact sum / difference / product / truncating quotient / remainder with the dividend's sign iff it is defined and in the 61-bit range, Err otherwise; lemma_tdiv_trem proves the quotient/remainder specs are truncating division")
for _h in ("less", "prefix", "equal"):
    K("O06.6." + _h, ["C06"], "object", "c06_string_cmp_" + _h, level="bounded", bound="one concrete pair of texts", needs_fmt_stub=True,
      functions=["PartialOrd::partial_cmp", "PartialEq::eq"], desc="six comparisons on two texts equal byte-lexicographic order")

# ---------------------------------------------------------------------------------------------
# C13 arrays and strings
# ---------------------------------------------------------------------------------------------
V("O13.1", ["C13", "C05"], "c13_arrays", expect_verified=4, functions=["index_set_array", "index_get_array"],
  desc="unbounded length: norm(i) = i<0 ? i+len : i; in range -> Ok and array == old.update(norm, value) (all other elements unchanged) / element returned; else IndexError and array unchanged")
for _n in range(4):
  K("O13.1k.%d" % _n, ["C13", "C05"], "vm", "c13_array_bounded_%d" % _n, level="bounded", bound="arrays of length %d, every index in the integer range, symbolic immediate elements" % _n, needs_fmt_stub=True,
  functions=["index_get_array", "index_set_array"], desc="bounded twin of O13.1 on the real functions (independent of their syntactic form): element norm(i) read / replaced iff in range, IndexError otherwise, no other element changes")
for _n in (4, 5):
  K("O13.1k.%d" % _n, ["C13", "C05"], "vm", "c13_array_bounded_%d" % _n, level="bounded", tier="thorough", bound="arrays of length %d, every index in the integer range, symbolic immediate elements" % _n, needs_fmt_stub=True,
  functions=["index_get_array", "index_set_array"], desc="thorough tier: the bounded twin of O13.1 at a larger length")
V("O13.2", ["C13", "C14", "C05"], "c13_strings", expect_verified=3, functions=["index_get_string", "index_set_string", "call_length"],
  desc="verbatim bodies over texts of every length and content (a text = its sequence of characters; chars().count(), chars().nth(), len() [bytes: 1..4 per character], to_string and the char_indices/replace_range expression under their std-documented contracts): the index counts CHARACTERS, negative indices count from the back; in bounds: exactly that character is read (a new one-character text) / replaced by the value's text, everything else unchanged; out of bounds: IndexError, non-text value: TypeError, text unchanged; NO unwrap() can meet a None (no panic for any text and any index, non-ASCII included); lengte() of a text is its number of characters")
K("O13.cast", ["C13"], "vm", "c13_cast_contracts", functions=["index_set_array", "index_get_array"],
  desc="the `as usize` / `as isize` casts replaced by helpers in unit c13_arrays (R3) have the helper contract, for all values")
K("O13.3a", ["C13", "C05"], "vm", "c13_index_get_dispatch", needs_fmt_stub=True, functions=["index_get"],
  desc="ALL words: non-Int index -> TypeError; non-sequence target -> TypeError; arrays/strings dispatched to their callee (callees replaced by contracts)")
K("O13.3b", ["C13", "C05"], "vm", "c13_index_set_dispatch", needs_fmt_stub=True, functions=["index_set"],
  desc="ALL words: same discipline for element assignment; the assigned value is the result")
K("O13.3c", ["C13"], "vm", "c13_array_alias", level="bounded", bound="array of length 2 nested in an array of length 1; all indices, all immediate values", needs_fmt_stub=True,
  functions=["index_get", "index_set", "index_get_array", "index_set_array", "Object::as_vec_mut"],
  desc="sharing by reference: a write through one copy (or through the copy nested in another array) is read through every alias; out-of-range leaves the array unchanged")

# ---------------------------------------------------------------------------------------------
# C14 builtins
# ---------------------------------------------------------------------------------------------
K("O14.1", ["C14", "C02"], "builtins", "c14_builtin_bytes", functions=["Builtin (repr u8)"],
  desc="bytes 0..=6 are exactly the seven builtins (the VM's transmute::<u8,Builtin> is sound for every byte the compiler can emit)")
K("O14.1n", ["C14"], "builtins", "c14_resolve_names", level="bounded", bound="7 documented names + 5 near misses, concrete", functions=["builtins::resolve"],
  desc="resolve knows exactly the documented names")
K("O14.0", ["C14"], "builtins", "c14_dispatch", functions=["builtins::call"], desc="call dispatches every builtin byte to its own function (callees replaced by recorders)")
K("O14.2", ["C14", "C05"], "builtins", "c14_arity", needs_fmt_stub=True,
  functions=["builtins::call", "call_type", "call_bool", "call_float", "call_int", "call_string", "call_length"],
  desc="0, 2 or 3 arguments of ANY words to any builtin but print: ArgumentError, no argument inspected")
K("O14.3b", ["C14", "C05"], "builtins", "c14_bool", needs_fmt_stub=True, functions=["call_bool"],
  desc="bool(x) for all words/payloads: null nee; bool identity (same word); int x>0; float x>0.0; text/array non-empty; function ArgumentError")
K("O14.3i", ["C14", "C05", "C06"], "builtins", "c14_int", needs_fmt_stub=True, functions=["call_int", "Object::checked_int"],
  desc="int(x) for all words / all 2^64 float payloads: null 0; bool 0/1; int identity; float truncates toward zero or errors outside the 61-bit range (never wraps); array/function/empty text ArgumentError")
K("O14.3f", ["C14", "C05"], "builtins", "c14_float", needs_fmt_stub=True, functions=["call_float"],
  desc="float(x) for all words: null 0.0; bool 0/1; float identity (same word); int -> `as f64` (round trip exact below 2^53); array/function ArgumentError")
K("O14.3l", ["C14", "C05"], "builtins", "c14_length_type_error", needs_fmt_stub=True, functions=["call_length"],
  desc="lengte of null/int/bool/function/float: TypeError (all words)")
K("O14.3la", ["C14", "C13"], "builtins", "c14_length_array", level="bounded", bound="arrays of 0, 1, 2 elements", needs_fmt_stub=True, functions=["call_length"],
  desc="lengte(array) is the number of elements")

# ---------------------------------------------------------------------------------------------
# C02 / C12 / C10 / C11 (VM side): helpers (Kani on the real methods) and dispatch arms (Verus, sliced)
# ---------------------------------------------------------------------------------------------
_VMP = ["C02", "C05"]
K("O02.h1", _VMP, "vm", "c02_read_u8", functions=["VM::read_u8"], level="bounded", bound="code of 4 symbolic bytes, every ip",
  desc="requires ip < len: value == code[ip], ip' == ip+1, nothing else changes (contract assumed by the Verus arm units)")
K("O02.h2", _VMP + ["C11"], "vm", "c02_read_u16", functions=["VM::read_u16"], level="bounded", bound="code of 4 symbolic bytes, every ip",
  desc="requires ip+2 <= len: value == code[ip] + 256*code[ip+1], ip' == ip+2 (inverse of emit_u16)")
K("O02.h3", _VMP, "vm", "c02_pop", functions=["VM::pop"], level="bounded", bound="stacks of 1..3 symbolic immediates",
  desc="requires non-empty stack: returns and removes the top element, rest untouched")
K("O02.h4", _VMP, "vm", "c02_next", functions=["VM::next", "OpCode::from"], desc="every valid opcode byte decodes to the opcode with that discriminant")
K("O02.cast", _VMP + ["C12"], "vm", "c02_cast_contracts", functions=["VM::run (casts)"], desc="R3 cast helpers of the VM units hold for all values")
K("O02.op", _VMP, "compiler", "c02_opcode_roundtrip", functions=["OpCode::from"], desc="OpCode::from total on 0..=44, inverse of `as u8`")
K("O02.ops", _VMP, "compiler", "c02_operand_widths", functions=["OpCode::operands"], desc="recorded operand widths == bytes consumed by the machine's arm, for all 45 opcodes")
K("O02.emit", _VMP + ["C11"], "compiler", "c02_emit", functions=["Compiler::emit_u16", "Compiler::emit_u8", "Compiler::emit_opcode"], level="bounded", bound="2 pre-existing symbolic bytes",
  desc="emit_u16 appends low byte then high byte; earlier bytes unchanged; emit_opcode records last_instruction")
K("O11.patch", ["C11", "C02"], "compiler", "c11_change_jump_operand", functions=["Compiler::change_jump_operand_at"], level="bounded", bound="code of 6 symbolic bytes, every idx",
  desc="writes exactly bytes idx+1, idx+2 of a jump; no other byte changes")
V("O02.helpers", ["C02", "C12", "C05"], "c02_helpers", expect_verified=7,
  functions=["Frame::new", "VM::get_local", "VM::set_local", "VM::jump", "VM::push", "VM::popframe", "VM::pushframe"],
  desc="verbatim bodies: slot access in bounds under the stated precondition; popframe cuts the stack to the popped base and restores the caller's ip/bp; pushframe saves the return address; frames below untouched")
V("O12.arms", ["C12", "C02", "C03", "C05"], "c12_calls", expect_verified=3,
  functions=["VM::run arm Call", "VM::run arm ReturnValue", "VM::run arm Return"],
  desc="Call: base = len-1-argc, args in place, remaining locals null, callee word gone, one frame pushed with the return address, everything below base unchanged, non-function -> TypeError, argc > slots, base > 65535 or more than 65535 nested calls -> ArgumentError. Return(Value): stack == caller's stack ++ [result], frame popped, ip/bp restored, collector roots cover stack, constants, globals, last value and the returned value")
V("O12.4", ["C12", "C02", "C05", "C11"], "c12_callsite", expect_verified=11,
  functions=["Compiler::compile_expression arms Expr::Call, Expr::Array, Expr::Index, Expr::Prefix, Expr::Bool, Expr::Int, Expr::Float, Expr::String", "Compiler::compile_statement arms Stmt::Expr, Stmt::Return, Stmt::Block"],
  desc="call site: arguments compiled left to right, then the callee (or the builtin's byte - only when the name is a builtin's AND the program has not declared it itself, O09.b), argc == argument count <= 255; array elements left to right + count; index: target, index, IndexGet; prefix operators; literals (Int constant slot holds the literal, out-of-range literal is an error with nothing emitted); expression statement ends in Pop; antwoord outside a function is a SyntaxError with nothing emitted")
V("O02.ind", ["C02", "C11", "C09", "C10", "C12"], "c02_dispatch", expect_verified=3,
  functions=["Compiler::compile_expression (whole function, 14 arms outlined)", "Compiler::compile_statement (whole function, 6 arms outlined)"],
  desc="closes the structural induction of the code generator: for EVERY kind of expression / statement (real match; an arm that no unit holds is a lost anchor) success implies the generator contract gen_post that all arms assume of their recursive calls; each outlined arm's contract is taken from the unit that verifies the arm's real text (//@ASSUMES checks the clause and the precondition literally)")
V("O02.blocks", ["C02", "C09", "C12", "C11", "C05"], "c02_blocks", expect_verified=3,
  functions=["Compiler::compile_block_statement", "Compiler::compile_block_value", "Compiler::compile_expression arm Expr::Function"],
  desc="blocks: an empty block is one Null; every statement of a non-empty block is compiled in order, back to back, ONE SCOPE DEEPER, depth restored (names cease to exist at block end). Function definitions: jumped over; the body ALWAYS ends in ReturnValue / Return (control cannot run off its end); entry point = first byte of the body; slot count from the symbol table; body compiled in a fresh function context with parameters declared first and no enclosing loop visible (both restored); a named function is declared before its body and stored in its slot")
K("O09.4k", ["C09", "C02"], "compiler", "c09_block_scope_twin", level="bounded", bound="blocks of 1..=3 statements (expression / stop / antwoord shapes)", needs_fmt_stub=False,
  functions=["Compiler::compile_block_statement"], desc="bounded twin of the block contract on the real function whatever its syntactic form: each statement exactly once, in order, one scope deeper, depth restored (added after seeded change C09-3 turned the Verus unit undecided)")
K("O12.2k", ["C12", "C02"], "vm", "c12_call_twin", level="bounded", bound="1 argument, callee with 0..=3 slots, two caller slots", needs_fmt_stub=True,
  functions=["VM::run arm Call (compiled verbatim as a method, registry.TWINS)"], desc="bounded twin of the Call contract on the real arm text whatever its syntactic form")
for _n in range(3):
    K("O12.3k.%d" % _n, ["C12", "C02"], "vm", "c12_return_twin_%d" % _n, level="bounded", bound="caller stack of 2 slots, callee activation of %d slots" % _n, needs_fmt_stub=True,
      functions=["VM::run_code arm ReturnValue", "VM::run_code arm Return"], desc="bounded twin of the Return contracts on the real arm text")
for _n in (3, 4):
    K("O12.3k.%d" % _n, ["C12", "C02"], "vm", "c12_return_twin_%d" % _n, level="bounded", tier="thorough", bound="caller stack of 2 slots, callee activation of %d slots" % _n, needs_fmt_stub=True,
      functions=["VM::run_code arm ReturnValue", "VM::run_code arm Return"], desc="thorough tier: bounded twin of the Return contracts at a larger activation")
V("O02.arms", ["C02", "C10", "C11", "C06", "C14", "C13", "C05", "C03"], "c02_arms", expect_verified=42,
  functions=["VM::run arms: Const SetGlobal GetGlobal SetLocal GetLocal Jump JumpIfFalse Pop Null True False Add..Or (13) Not Negate CallBuiltin *LocalConst (11) Array IndexGet IndexSet Halt"],
  desc="42 arms, each: operands read from inside the code, stack delta stated over the whole old stack, operand ORDER of every binary / fused operator (left = lower slot / local, right = top / constant), jump targets, type errors of Not/Negate/JumpIfFalse, GetGlobal of an unset slot is a ReferenceError, Halt untraces the result")

# ---------------------------------------------------------------------------------------------
# C10 implementation choice unobservable
# ---------------------------------------------------------------------------------------------
V("O10.3m", ["C10", "C06"], "c10_mirror", expect_verified=2, functions=["mirror_operator", "lemma_mirror (mirror law over mathematical integers)"],
  desc="mirror_operator answers exactly the mirror table (a op b == b op' a) and refuses - / % and the logical operators; the mirror law holds for ALL integers (lemma). Own unit so that the Infix arm stays decidable when the helper is inlined or removed (seed C10-6)")
V("O10.3", ["C10", "C06"], "c10_fused", expect_verified=4,
  functions=["Compiler::compile_const_var_infix_expression", "Compiler::compile_operator", "Compiler::compile_expression arm Expr::Infix"],
  desc="fused instruction only for (variable, int literal) with the operator's meaning or (int literal, variable) with the MIRRORED meaning (never - / % with the literal left); otherwise left code, right code (ghost log order), operator opcode; meaning tables shared with the machine arms (unit c02_arms)")
K("O10.1", ["C10"], "compiler", "c10_add_constant", level="bounded", bound="constant pool of 0..=2 integer entries, symbolic new integer constant", functions=["Compiler::add_constant"],
  desc="returned slot holds the same type and content; earlier slots unchanged; index in range")

K("O10.1t", ["C10"], "compiler", "c10_add_constant_pool3", level="bounded", tier="thorough", bound="constant pool of 0..=3 immediates (null, bools, ints, function descriptors), symbolic new immediate", functions=["Compiler::add_constant"],
  desc="thorough tier: O10.1 on a larger pool over all immediates; an equal entry is re-used, a new one appended at the end")
K("O10.1f", ["C10", "C04"], "compiler", "c10_add_constant_float", level="bounded", bound="pool of one float constant; all pairs of non-NaN f64 bit patterns", functions=["Compiler::add_constant"],
  desc="a float literal lands in a slot whose value is IEEE-equal to it; the existing slot is unchanged (added after seeded change C10-3 was missed); frame: add_constant never untraces (the collector keeps owning every constant until compile_program hands the pool over on success; added after seeded change C04-2 was missed)")

# ---------------------------------------------------------------------------------------------
# C11 structured control flow
# ---------------------------------------------------------------------------------------------
V("O11.h", ["C11"], "c11_stop_height", vacuity_quick=False, functions=["Compiler::compile_statement arm Stmt::Break", "Compiler::compile_statement arm Stmt::Continue"],
  desc="KNOWN FINDING (fails on the current tree, listed in known-findings.txt): the jump of a stop / volgende leaves from the static height its loop expects. False when the statement is compiled under pending temporaries of an enclosing expression: the real code drops nothing, every such jump leaves residue on the operand stack")
V("O11.1", ["C11", "C02", "C05"], "c11_control", expect_verified=10,
  functions=["to_u16", "to_u8", "LoopContext::new", "Compiler::last_instruction_is", "Compiler::remove_last_instruction",
             "Compiler::compile_statement arm Stmt::Break", "Compiler::compile_statement arm Stmt::Continue",
             "Compiler::compile_expression arm Expr::If", "Compiler::compile_expression arm Expr::While"],
  desc="If: JumpIfFalse right after the condition targets the byte after the consequence's Jump, that Jump targets the end, no placeholder left, sub-trees compiled once in source order; While: back jump to the first byte of the condition, JumpIfFalse and EVERY stop recorded for this loop target the first byte after the loop, loop context popped, enclosing loops' contexts untouched; Break/Continue: outside a loop SyntaxError with nothing emitted, inside they act on the innermost context only; conversions to 16/8-bit operands never panic")

# ---------------------------------------------------------------------------------------------
# C09 names
# ---------------------------------------------------------------------------------------------
V("O09.1w", ["C09", "C17", "C02", "C12"], "c09_names", expect_verified=20,
  functions=["Context::new", "Context::max_size", "SymbolTable::new", "SymbolTable::new_context", "SymbolTable::leave_context", "SymbolTable::current_context", "SymbolTable::in_function", "SymbolTable::resolve", "SymbolTable::define", "SymbolTable::enter_scope", "SymbolTable::leave_scope", "SymbolTable::reset_to_global",
             "lemmas over the contracts of Context::define / resolve: lemma_inner_scope, lemma_declare_takes_over, lemma_declare_frames_others, lemma_block_roundtrip, lemma_table_block_roundtrip, lemma_slot_in_range"],
  desc="real struct definitions (R9) and verbatim bodies: declarations go to the innermost scope of the innermost context; a block opens / closes exactly one scope; lookup tries the current context, then - only inside a function - the GLOBAL context, never an enclosing function's; a function's context is pushed / popped as a whole; reset keeps only the outermost global scope. Lemmas (all sizes) over the view contracts of Context::define / resolve: shadowing, latest declaration wins, other names unaffected, block end forgets, slots in range")
V("O09.3", ["C09", "C10", "C05"], "c09_slots", expect_verified=3,
  functions=["Compiler::compile_expression arm Expr::Identifier", "Compiler::compile_statement arm Stmt::Let", "Compiler::compile_expression arm Expr::Assign"],
  desc="unresolved name -> ReferenceError with nothing emitted; load/store opcode family chosen from the symbol's scope; operand == the symbol's slot; assignment stores then reloads the same slot; element assignment compiles target, index, value in order; a declaration is NOT in scope inside its own initializer (O09.init: the initializer is compiled while the context holds the old number of names) unless it is a function value, which is declared first so that it can call itself")
K("O09.len", ["C09", "C05"], "symbols", "c09_total_len", level="bounded", bound="three scopes of 0..=2 names each", functions=["Context::total_len"],
  desc="total_len is the sum of the scope lengths (real iterator fold): the contract under which Context::define is verified")
K("O09.res", ["C09"], "symbols", "c09_resolve_two_scopes", level="bounded", bound="two open scopes of 0..=2 names each over {a, b}", functions=["Context::resolve", "Context::total_len"],
  desc="innermost scope first, last declaration of the name within a scope, slot == number of names declared before it in the context; absent name -> None")
for _n in (1, 2, 3):
  K("O09.1k.%d" % _n, ["C09", "C02"], "symbols", "c09_table_resolve_twin_%d" % _n, level="bounded", bound="%d context(s) (global, enclosing function, current function), one scope of 0..=1 names over {a, b} each" % _n, functions=["SymbolTable::resolve", "Context::resolve"],
    desc="bounded twin of the table-level lookup contract on the real code whatever its syntactic form: current context, then the global one, never an enclosing function's (added after seeded change C09-2 turned the Verus unit undecided)")
K("O09.1g", ["C09", "C02"], "symbols", "c09_table_resolve_twin_global_block", level="bounded", bound="global context with two open scopes of 0..=1 names each + current function context with one scope of 0..=1 names, names over {a, b}", functions=["SymbolTable::resolve", "Context::resolve"],
  desc="bounded twin: a function body sees the globals of every open global scope (a function defined inside a top-level block), innermost first, at the slot Context::resolve gives them (added after seeded change C09-5 turned the Verus unit undecided)")
K("O09.res3", ["C09"], "symbols", "c09_resolve_three_scopes", level="bounded", tier="thorough", bound="three open scopes of 0..=2 names each over {a, b}", functions=["Context::resolve", "Context::total_len"], timeout=1500,
  desc="thorough tier: O09.res for three scopes")
K("O05.sym", ["C05", "C09", "C12"], "symbols", "c05_define_total", functions=["Context::define"],
  desc="declaring a name is total for EVERY number of names already in the context (symbolic count in the enclosing scopes): slot == count as u16, or an error value and an unchanged context - never a panic; every declaration counts towards the context's size (the number of slots a call reserves for the function: C12)")
K("O09.2", ["C09"], "lib", "c09_eval_order", functions=["eval"],
  desc="eval enters the machine only after parse and compile succeeded (stages replaced by recorders): a compile-time reference error precedes any output")

# ---------------------------------------------------------------------------------------------
# C07 one tree per text
# ---------------------------------------------------------------------------------------------
K("O07.1", ["C07"], "parser", "c07_precedence_table", functions=["Token::precedence"], desc="precedence of every one of the 40 token kinds equals the documented table")
K("O07.1b", ["C07"], "parser", "c07_precedence_order", functions=["Precedence (derived PartialOrd)"], desc="derived ordering of Precedence == declared order, all 10x10 pairs")
K("O07.1c", ["C07", "C06"], "parser", "c07_operator_of_token", functions=["Operator::from(Token)"], desc="every operator token denotes the documented operator")
K("O07.2a", ["C07"], "parser", "c07_parse_infix", needs_fmt_stub=True, functions=["Parser::parse_infix_expr"],
  desc="modular (advance / parse_expr replaced by recorders): Infix{left, op(token), right}; right parsed at exactly the operator's own precedence; one token consumed")
K("O07.2b", ["C07"], "parser", "c07_pratt_loop", needs_fmt_stub=True, functions=["Parser::parse_expr"],
  desc="modular: for every following token and every binding power the Pratt loop continues iff token != ; and its precedence is STRICTLY higher (left associativity of equal levels)")
K("O07.3", ["C07"], "parser", "c07_op_assign", needs_fmt_stub=True, functions=["Parser::parse_infix_expr", "Parser::parse_op_assign_expression"],
  desc="a op= e is Assign{a, Infix{a, op, e}} with e parsed at the lowest precedence")
K("O07.4", ["C07"], "parser", "c07_skip_optional", functions=["Parser::skip_optional"], desc="skip_optional consumes exactly the requested token, at most once")
K("O07.4w", ["C07", "C08"], "lexer", "c07_is_whitespace", functions=["is_whitespace"], desc="is_whitespace is exactly the documented set, for every char")

# ---------------------------------------------------------------------------------------------
# C05 totality: every obligation above tagged C05 includes panic-freedom (Kani checks every unwrap, index,
# overflow, unimplemented!, debug_assert; Verus checks every overflow / index / unwrap precondition, and
# panic! sites become `requires false` calls) and termination (Kani unwinding assertions; Verus decreases)
# ---------------------------------------------------------------------------------------------
for _c in ("ident", "comma", "close", "other", "eof"):
  K("O05.2b." + _c, ["C05"], "parser", "c05_params_progress_" + _c, needs_fmt_stub=True, termination=True, functions=["Parser::parse_function_expr"],
    desc="the parameter loop over the five token classes it can tell apart (first token after `functie (` of class `%s`, second symbolic): consumes a token per iteration or fails with a SyntaxError; a loop that stops consuming input fails the unwinding bound, which for this obligation is a violation (termination)" % _c)
K("O05.2a", ["C05"], "parser", "c05_function_params_progress", needs_fmt_stub=True, termination=True, functions=["Parser::parse_function_expr"],
  desc="modular (advance feeds tokens from a ghost queue): for every 2-token continuation of `functie (` the parameter loop consumes a token per iteration or fails with a SyntaxError; never spins")

# ---------------------------------------------------------------------------------------------
# C03 / C04 collector
# ---------------------------------------------------------------------------------------------
K("O03.1", ["C03", "C04"], "gc", "c03_constructors_register", level="bounded", bound="one float, one empty array", functions=["Object::float", "Object::array", "GC::trace", "GC::maybe_trace"],
  desc="heap constructors register their result exactly once; immediates never; maybe_trace does not register twice")
V("O03.gc", ["C03", "C04", "C05"], "c03_collector", expect_verified=36,
  functions=["GC::new", "GC::maybe_trace", "GC::trace", "GC::untrace", "GC::destroy", "GC::run", "GC::reset_marks", "GC::sweep", "GC::mark", "<GC as Drop>::drop"],
  desc="the collector algorithm on its REAL text over an ABSTRACT heap (address, tag and array contents uninterpreted: every heap shape - nested, shared, cyclic - every number of objects and roots). mark: marks the object if managed, everything newly marked has all its managed elements marked, marks only grow, the managed list is untouched, terminates on cycles (measure: unset bits). run: after the mark phase every object reachable from a root through managed arrays is marked (induction on the path length, lemma_reachable_is_marked); sweep hands to `free` ONLY unmarked objects, each removed from the list as it is freed (free REQUIRES the caller's permission may_free, which run's precondition grants for unreachable managed objects only), keeps every marked one, and leaves the list duplicate-free; so every reachable managed object is still managed after run and nothing is released twice. PRECISION: whatever mark marks is reachable from its argument, so after run every object still managed is one that is reachable from the roots (managed' = managed /\\ reachable). untrace only removes entries and terminates on cyclic arrays; maybe_trace never registers twice; destroy releases everything. Bitmap index arithmetic and swap_remove bookkeeping proved (no out-of-bounds panic).")
V("O04.release", ["C04", "C05"], "c04_release", expect_verified=8,
  functions=["Object::free_recursive", "Object::collect_graph"],
  desc="how the caller releases a result (real text over the abstract heap of O03.gc): collect_graph lists the object and every heap object reachable from it, each address once, and nothing that is not reachable; free_recursive passes to `free` exactly the listed objects: every reachable object (nothing remains), each once (shared elements and cycles included: the list is duplicate-free), and only objects the caller gave the permission for (reachable ones). Termination is not proved (the abstract heap does not say that a result graph is finite)")
# O03.2 (c03_run_universe3) and O04.3 (c04_untrace_result) are written in contracts/kani/gc.rs but NOT registered:
# CBMC does not finish symbolic execution of GC::run / sweep / destroy (bitvec::BitVec resize / iter_zeros) within
# 800 s even for a universe of three objects and a concrete root set (measured). The collector algorithm is decided
# by the Verus unit c03_collector (O03.gc) instead, with bitvec's operations under assumed contracts.

# ---------------------------------------------------------------------------------------------
# C17 retained sessions
# ---------------------------------------------------------------------------------------------
V("O17.1", ["C17"], "c17_session", expect_verified=2, functions=["Compiler::compile_program", "Compiler::compile_ast"],
  desc="after compile_ast the compiler's code buffer is empty on Ok AND on Err; on Err no remembered last instruction, no open loop context, and the global scope holds EXACTLY the names it held before the call, in the same slots (none of the failed program's declarations survives; every generator arm keeps the earlier names on all exits: sym_globals_kept); on Ok the code handed out ends with Halt and carries all constants; either way the session is back at the outermost global scope; static height: a program starts with an empty operand stack and reaches Halt with an empty one (every statement dropped what it pushed)")
V("O17.2", ["C17", "C03", "C04"], "c17_vm", expect_verified=2, functions=["VM::run", "VM::run_code (prologue)"],
  desc="VM::run puts the same collector back on every exit path (heap values held by globals stay managed); every run starts from an empty operand stack, one call frame, ip = bp = 0, the new code; globals kept")

# ---------------------------------------------------------------------------------------------
# bounded twins of the dispatch arms (real arm text compiled as methods; callees replaced by recorders)
# ---------------------------------------------------------------------------------------------
for _o, _m in _BIN:
    K("O02.tw." + _o.lower(), ["C02", "C10", "C06"], "vm", "c02_twin_" + _o.lower(), level="bounded", bound="stack of 3 symbolic immediates", needs_fmt_stub=True,
      functions=["VM::run_code arm " + _o], desc="twin of the generic operator arm: calls Object::%s(lower, top), replaces both by the result, slot below untouched, ip unchanged" % _m)
for _o, _m in _FUSED:
    K("O10.tw." + _o.lower(), ["C10", "C02"], "vm", "c10_twin_" + _o.lower(), level="bounded", bound="stack of 3, 2 constants, local / constant index in 0..=1", needs_fmt_stub=True,
      functions=["VM::run_code arm " + _o], desc="twin of the fused arm: calls Object::%s(local, constant) in that order, pushes the result, ip += 4" % _m)
for _a in ("const", "getlocal", "setlocal", "getglobal", "setglobal"):
    K("O02.tw." + _a, ["C02", "C10"], "vm", "c02_twin_" + _a, level="bounded", bound="stack of 3, 2 constants, 1-2 globals, slot index 0..=1", needs_fmt_stub=True,
      functions=["VM::run_code arm " + _a], desc="loads / stores address exactly the slot named by the little-endian operand; SetGlobal extends the globals; ip += 2")
K("O02.tw.gg", ["C02", "C05"], "vm", "c02_twin_getglobal_unset", level="bounded", bound="0..=2 globals, index >= count", needs_fmt_stub=True,
  functions=["VM::run_code arm GetGlobal"], desc="reading an unset global slot is a ReferenceError, never an out-of-bounds access")
K("O11.tw", ["C11", "C02"], "vm", "c11_twin_control", level="bounded", bound="stack of 3; every 16-bit jump operand", needs_fmt_stub=True,
  functions=["VM::run_code arms Jump, JumpIfFalse, Pop, Null, True, False, Not"], desc="jumps go exactly to the operand; non-bool condition is a TypeError; ja falls through; Pop feeds the last-statement value")
K("O06.tw.neg", ["C06", "C05"], "vm", "c06_twin_negate", needs_fmt_stub=True, functions=["VM::run_code arm Negate"],
  desc="for ALL integers: exact negation, error for MIN_INT (result out of range); non-numbers TypeError (float operand: Ok(Float) by Verus)")
for _n in range(3):
  K("O14.tw.%d" % _n, ["C14", "C02"], "vm", "c14_twin_callbuiltin_%d" % _n, level="bounded", bound="stack of 3, argc %d, every builtin byte" % _n, needs_fmt_stub=True,
  functions=["VM::run_code arm CallBuiltin"], desc="pops exactly argc values, hands them to the builtin named by the byte in call order, pushes its answer; ip += 2")
K("O13.tw.idx", ["C13", "C02"], "vm", "c13_twin_index_arms", level="bounded", bound="stack of 3", needs_fmt_stub=True,
  functions=["VM::run_code arms IndexGet, IndexSet"], desc="target below index (below value) handed to index_get / index_set in that order")
K("O13.tw.arr", ["C13", "C02"], "vm", "c13_twin_array_arm", level="bounded", bound="stack of 3, length 2", needs_fmt_stub=True,
  functions=["VM::run_code arm Array"], desc="pops exactly `length` values, array elements in source order")
K("O03.tw.halt", ["C03", "C04", "C02"], "vm", "c03_twin_halt", level="bounded", bound="stack of 3", needs_fmt_stub=True,
  functions=["VM::run_code arm Halt"], desc="the result is untraced and handed out")

# ---------------------------------------------------------------------------------------------
# per-property information for the evidence files
# ---------------------------------------------------------------------------------------------
NOT_APPLICABLE = {
    "C01": "relational claim over all programs (bytecode run == definitional evaluation of the tree): needs a verified semantics of VM::run as a whole and an inductive proof through compile_expression; neither function is within reach of Verus or Kani here (DESIGN.md s.1, s.5); its per-function ingredients are decided under C06/C10/C12/C13/C14/C15",
    "C08": "tokenisation and literal decoding live in Tokenizer::next / skip_while / read_str and parse_string_expression (Chars iterators, str slicing, String::push/replace): no Verus model exists for them and CBMC does not finish Tokenizer::next even on 2 symbolic ASCII bytes with the Unicode predicates stubbed (> 300 s, measured) nor str::chars().count() on concrete 2-character texts; the only decidable fragment (is_whitespace for every char) is reported under C07 (O07.4w). Two genuine escape-decoding defects found by reading were repaired (known-findings.txt)",
    "C16": "quantifies over thread schedules, process histories and build profiles: Kani has no thread support, Verus would need the code rewritten onto its permission types, neither observes two build profiles (DESIGN.md s.5)",
}

# C05 (no panic, abort or hang) rests on every obligation that checks the panic-freedom of a function which ordinary
# inputs reach: the comparison operators (a NaN must not panic), the parser's dispatch and operator tables (a token
# without an operator must not reach Operator::from), the symbol table (its unwrap()s), the generators as whole functions
for _o in OBLIGATIONS:
    if "C05" not in _o["props"] and re.match(r"O06\.3\.|O06\.4a\.|O06\.4c\.|O06\.4p$|O07\.|O09\.1w$|O02\.ind$|O17\.1$|O17\.2$|O10\.3m?$", _o["id"]):
        _o["props"].append("C05")

PROPERTIES = {
    "C17": {
        "level": "proof",
        "claim": "PARTIAL: the state-reset contracts of a retained compiler / machine, proved (Verus) on the verbatim bodies of compile_ast, compile_program, VM::run and the prologue of run_code: a failed compile leaves no code, loop or function context behind AND none of its declarations: the global scope holds exactly the names it held before, in the same slots (so a failed line cannot shadow an earlier global); a successful one leaves an empty code buffer and the session back at the outermost global scope; every run starts from an empty stack and a single frame; the collector (hence every heap value a global refers to) survives the run on success and on every error path. NOT decided: that a session equals the concatenated program (relational, needs C01), globals' values across lines, effects of a run-time failure on globals.",
        "note": "Trusted: Verus/Z3, rules R1,R4,R4s,R4m,R8,R11 (mem::take / mem::replace helpers with the std-documented contract). Four defects of retained sessions were repaired (known-findings.txt).",
        "design_ref": "DESIGN.md 3.14",
        "undecided": ["session == concatenated program (relational)", "SymbolTable::reset_to_global internals (Context is opaque)", "function values across lines (ip refers to a previous code buffer: documented upstream limitation, test_retained_functions is #[ignore]d)"],
        "assumptions": ["compile_statement / run_code are opaque here"],
    },
    "C03": {
        "level": "proof",
        "claim": "PARTIAL, in two halves that meet at GC::run's contract. (1) Proved (Verus, verbatim ReturnValue / Return arms, stacks of every size): at both collection points the root set handed to the collector is exactly the caller's operand stack, the constants, the globals, the last statement value and - for ReturnValue - the value being returned; Halt untraces the result before handing it out. (2) Proved (Verus unit c03_collector, the REAL text of GC::new / maybe_trace / trace / untrace / destroy / run / reset_marks / sweep / mark over an ABSTRACT heap: addresses, tags and array contents are uninterpreted, so every heap shape - nested, shared, cyclic - and every number of objects and roots is covered): after the mark phase every managed object reachable from a root through managed arrays is marked; sweep passes to `free` only unmarked objects, each removed from the managed list as it is freed, and `free` demands a permission that run's precondition grants for UNREACHABLE managed objects only; every reachable managed object is still managed after run; the managed list stays duplicate-free (nothing is released twice); mark and untrace terminate on cyclic arrays; no bitmap or list index is out of bounds. Checked (Kani, bounded): every heap constructor registers its result exactly once.",
        "note": "Trusted in (2): the contracts of bitvec::BitVec's operations (new / reserve / truncate / clear / resize / set / index / iter_zeros().rev(): the crate's documentation), of Iterator::position / any for the predicate 'same address', of Object::as_vec_unchecked / free (raw memory), and the heap-typing axiom that two heap words with the same address are the same word. The heap is a fixed function of the object word during a collection (mark and sweep do not write heap memory; free releases only the freed object). Seeded change C03-2 (mark rewritten as a worklist loop with a wrong `return`) is reported UNDECIDED: the unit's loop rewrite no longer finds the loop it is written for. The pinned tree's collector was unusable (mark indexed the bitmap through an unrelated address, nothing was ever freed): repaired by fix commits.",
        "design_ref": "DESIGN.md 3.9",
        "undecided": ["run's precondition at its two call sites: no Rust local / native frame holds the only reference to a managed object across gc.run (the root set is exact for the MACHINE state, O12.arms; values held only by Rust locals are not modelled)", "the heap is what the object words say it is (as_vec_unchecked / free are raw-memory operations, assumed)", "index_set_string aliasing (strings are out of reach)", "that unreachable objects ARE reclaimed promptly (C04, not applicable) beyond destroy releasing everything"],
        "assumptions": ["bitvec::BitVec operations behave as documented (dependency)", "Iterator::position / any over the managed list (std)", "one word per heap address (heap typing)", "Object::as_vec_unchecked reads the array's elements, Object::free releases exactly that allocation (unsafe code)"],
    },
    "C04": {
        "level": "proof",
        "claim": "PARTIAL: the collector's half. Proved (Verus unit c03_collector, real text of impl GC over an abstract heap - every heap shape, every number of objects and roots): after EVERY collection the collector manages exactly the previously managed objects that are reachable from the roots (run: reachable => kept, and kept => reachable: mark marks nothing that is not reachable from its argument; sweep keeps only marked objects), every other managed object has been passed to `free` exactly once and removed from the managed list in the same step (the list is duplicate-free, so no second release); destroy and Drop for GC (real text of `drop`) leave nothing managed and release every managed object once; untrace only removes the result's graph from the managed list (hand-over to the caller, nothing freed, terminates on cyclic results); maybe_trace never registers an object twice. Proved (Verus, real VM::run): the per-run collector swap puts the machine's collector back on every exit path, error paths included. Proved (Verus unit c04_release, real text of Object::free_recursive / collect_graph over the same abstract heap): the caller's release of a result graph frees EVERY heap object reachable from the result (however nested), EACH exactly once (shared elements and cycles included) and nothing else - after fix d19fc0f; the pinned function leaked below the first level and double-freed shared elements. Checked (Kani, bounded): Halt untraces the result before handing it out; every heap constructor registers its result exactly once.",
        "note": "NOT decided: the ledger claim as a whole - that every object a run allocated is released exactly once on every exit path (normal, or an error after k instructions for every k) and that the result graph can be released by the caller with nothing remaining. That composes Drop for GC, the `?` exit paths of VM::run_code, the compiler's hand-over of constants (untrace -> maybe_trace) and the raw allocator over a whole run; no contract in reach states it. The heap itself (`as_vec_unchecked`, `free`) and bitvec are under assumed contracts (see C03).",
        "design_ref": "DESIGN.md 3.9",
        "undecided": ["every allocation of a run is released exactly once on every exit path (whole-run ledger, crash points)", "the result graph stays valid after the interpreter is gone (that nothing else still owns or refers to what Halt hands out: retained sessions hand out objects a global or the compiler's constants still refer to - DESIGN.md 4)", "termination of free_recursive / collect_graph (the abstract heap does not say a result graph is finite)", "constants handed from the compiler's collector to the machine's (untrace, then maybe_trace) across a session", "that nobody else refers to a managed object when its collector is dropped (the precondition of Drop for GC)"],
        "assumptions": ["bitvec::BitVec operations behave as documented (dependency)", "Iterator::position / any over the managed list (std)", "one word per heap address (heap typing)", "Object::as_vec_unchecked reads the array's elements, Object::free releases exactly that allocation (unsafe code)", "free_recursive / collect_graph terminate (exec_allows_no_decreases_clause: a result graph is finite)"],
    },
    "C05": {
        "level": "proof",
        "claim": "PARTIAL, per function: every function / match arm under contract in this framework (operators, conversions, index functions, all 45 machine arms, call/return, the compiler arms and helpers listed in the evidence) is proved free of panics, arithmetic overflow, out-of-bounds access and non-termination under its stated precondition - Kani checks every unwrap / index / overflow / unimplemented! / debug_assert on the real code, Verus every overflow / index / unwrap precondition on the extracted text with panic! sites turned into `requires false` calls. The symbol table (src/symbols.rs) is under contract on its real structs: every unwrap() there is reached only under a precondition the compiler is proved to establish at every call site (sym_wf in the generator invariant, kept on error exits), and declaring a name is total for every symbol count. The defects all this exposed (panics, hangs, reads below the stack on ordinary inputs) are repaired (27 fix commits, known-findings.txt).",
        "note": "NOT decided: totality of VM::run as a whole loop (composition of the arm contracts; the compile side is composed: O02.ind), termination of the recursive generators (structural), of the tokenizer and of the parser functions not under contract (if / call / array / block loops), the REPL's unwrap()s in src/bin. A panic in code outside the listed functions is not detected.",
        "design_ref": "DESIGN.md 3.10",
        "undecided": ["Tokenizer, parser functions not under contract, Context::resolve beyond its bound, std formatting/parsing paths of the builtins", "whole-loop totality of VM::run / compile_ast (composition)", "src/bin/nederlang.rs"],
        "assumptions": ["arm preconditions (compile-side half of C02)"],
    },
    "C07": {
        "level": "proof",
        "claim": "PARTIAL. Proved on the real parser functions for ALL tokens and binding powers (Kani, loop-free, callees replaced by recorders = modular): the precedence table and its ordering, the token->operator table, that an infix node's right operand is parsed at exactly the operator's own precedence while the Pratt loop continues only on STRICTLY higher precedence (so equal levels associate left), the op-assign desugaring, skip_optional, and the whitespace set. NOT decided: that parse(print(tree)) == tree for all trees, comments / layout in the tokenizer, `anders als` nesting, call/index argument loops.",
        "note": "Trusted: Kani/CBMC. The tokenizer (Tokenizer::next) is out of reach of both back ends (> 300 s on 2 symbolic bytes; no Verus model of Chars / str slicing), so nothing about whole token streams or printed trees is decided.",
        "design_ref": "DESIGN.md 3.11",
        "undecided": ["round trip parse(print(t)) == t", "tokenizer (comments, whitespace skipping, separators)", "parse_if_expr / parse_call_expr / parse_array_expr / parse_block_statement loops"],
        "assumptions": ["recorders stand for advance / parse_expr / parse_*_expr (their own contracts are the other C07 obligations or undecided)"],
    },
    "C09": {
        "level": "proof",
        "claim": "PARTIAL. Proved (Verus): the symbol table of src/symbols.rs on its REAL struct definitions - new / new_context / leave_context / current_context / in_function / resolve / define / enter_scope / leave_scope / reset_to_global and Context::new verbatim: a block opens exactly one empty scope and its end closes exactly that scope, a function body sees its own context and the global one, never an enclosing function's, declarations go to the innermost scope of the innermost context. Over the contracts of the two per-context functions (Context::define / resolve, stated on the VIEW stack-of-scopes-of-names of the real struct) the scoping statements of the property are lemmas for contexts of EVERY size: inner declarations shadow without disturbing the outer slot, the latest declaration of a name in a block takes over, other names are unaffected, a block's names cease to exist at its end, slots are in range. Context::define is proved total and appending for EVERY symbol count (Kani, modular over total_len). The compiler arms turn a resolved name into a load/store of exactly its slot in its scope's opcode family, an unresolved name is rejected before anything is emitted, a declaration is not in scope inside its own initializer (except a function value, declared first so that it can call itself), a name the program declares wins over a builtin of the same name in call position, and eval never enters the machine when compilation failed (Kani). BOUNDED (not proved): that the real Context::resolve / total_len compute the view functions (two scopes of 0..=2 names; three scopes).",
        "note": "Context::define / resolve use iterator closures (fold, rev, rposition): no Verus model, so their view contracts are ASSUMED in the Verus unit and checked on the real code by Kani - define for all counts, resolve / total_len within the stated bound. Sequences of define calls do not finish in CBMC (measured: out of memory / > 600 s for 2+2 declarations), hence the composition is done by the Verus lemmas over views. The compiler units use the table through EXACTLY the contracts this unit proves (copied mechanically, //@ASSUMES full), over one shared vocabulary (symbols_spec.rs); their preconditions (a usable table `sym_wf`, depth >= 2 before leave_scope, a function context to leave) are proved at every call site of the compiler and are what makes the unwrap()s of symbols.rs unreachable. Trusted: Verus/Z3, Kani/CBMC, rules R4, R9.",
        "design_ref": "DESIGN.md 3.13",
        "undecided": ["Context::resolve beyond two scopes of two names (bounded)", "compile-time slot == run-time slot for every program (composition with C02/C12)"],
        "assumptions": ["Context::resolve answers slot_of(view) for contexts larger than the Kani bound", "Context::total_len == flat_len(view) beyond the Kani bound", "Context::define / resolve view contracts beyond what Kani checks (see undecided)"],
    },
    "C11": {
        "level": "proof",
        "claim": "Jump emission and patching are proved per arm on the real compiler code (Verus, verbatim arms Expr::If, Expr::While, Stmt::Break, Stmt::Continue for code buffers and loop nestings of every size): every jump of an if / while / stop / volgende ends up targeting exactly the position the construct's meaning requires, stop/volgende touch the innermost loop context only, and misplaced ones are rejected before anything is emitted; the machine's Jump / JumpIfFalse / Pop / Null arms do what the operands say (unit c02_arms); operand patching changes exactly two bytes (Kani). Static stack typing (ghost height): every branch of an if leaves exactly one value and both meet at the same height (null is pushed for a branch that has none), a loop iteration leaves the height it found (no residue) and the loop expression leaves exactly one value. ONE KNOWN FINDING (O11.h, known-findings.txt): stop / volgende compiled under pending temporaries of an enclosing expression leave those temporaries behind.",
        "note": "Trusted: Verus/Z3, extraction rules R1,R4,R4d,R12,R13 + ghost hints (erased). The induction hypothesis the arms use for their recursive calls (gen_post in prelude_compiler.rs: on success append-only, peephole invariant kept, loop nesting restored, only well-formed stop jumps recorded, constants only grow, scope shape restored) is PROVED: every arm and compile_block_statement ensure it (lemmas genpost_lemmas.rs), and unit c02_dispatch verifies compile_expression / compile_statement as whole functions (real match, every arm outlined, rule R15) against it. Residual assumption: an Infix node carries a binary operator (parser fact; otherwise compile_operator panics). NOT decided: the VALUE of a branch / absence of residue per iteration (needs stack typing of the emitted code), antwoord from nested depth (composition with C12).",
        "design_ref": "DESIGN.md 3.8",
        "undecided": ["which VALUE a branch leaves (only that it leaves exactly one)", "heights at stop / volgende jumps: KNOWN FINDING O11.h (residue when compiled under pending temporaries)"],
        "assumptions": ["every Infix node carries a binary operator (precondition of the dispatcher obligation O02.ind): proved of the only two places that build Infix nodes, parse_infix_expr and parse_op_assign_expression (O07.2a, O07.3, with O07.2b: only binary-operator tokens reach them); that no other code builds Infix nodes is by reading", "termination of the recursive generators (structural recursion over the tree; Verus checks partial correctness of exec code)"],
    },
    "C10": {
        "level": "proof",
        "claim": "The compiler's choice between a fused variable-op-constant instruction and the generic sequence is proved meaning-preserving per function (Verus, verbatim bodies of mirror_operator, compile_const_var_infix_expression, compile_operator and the Expr::Infix arm): a fused opcode is emitted only with the operator's meaning for `x op c` or the mirrored meaning for `c op x`; the machine arms compute exactly the tabled meaning on (local, constant) / (lower, top) (unit c02_arms); the mirror laws are a lemma (lemma_mirror, unit c10_mirror) over the integer contracts of C06 (O06.1/O06.2/O06.3: each operator IS the mathematical operator); the constant pool never changes an existing entry (Kani, bounded); Get/SetGlobal and Get/SetLocal arms have the same load/store contract.",
        "note": "Trusted: Verus/Z3, Kani/CBMC, extraction rules R1,R1p,R4; helper contracts emit_* (O02.emit). Infix nodes carry a binary operator: proved of the two parser functions that build them (O07.2a, O07.3). NOT decided: equivalence of whole programs under the four transformations (relational; needs the compile-side half of C02).",
        "design_ref": "DESIGN.md 3.7",
        "undecided": ["whole-program equivalence under globals<->locals / literal<->variable / mirroring / constant-pool shifts (composition)"],
        "assumptions": ["every Infix node carries a binary operator (precondition of arm_infix / O02.ind): proved of the two places that build Infix nodes (O07.2a, O07.3); that there is no third place is by reading"],
    },
    "C12": {
        "level": "proof",
        "claim": "Per-arm contracts, verified by Verus on the arms of VM::run sliced verbatim from src/vm.rs for stacks / frame stacks of EVERY size: Call binds arguments by position in a fresh activation whose other slots are null and leaves everything below the base untouched; Return/ReturnValue hand back exactly the caller's stack plus the result and restore the caller's ip/bp. Function descriptors round-trip for all (u32,u16) (Kani).",
        "note": "Trusted: Verus/Z3; helper contracts read_u8/pop (proved by Kani on the real methods, bounded code/stack size), extraction rules R1,R2,R3,R4,R7,R10. The compiler's call-site arm (arguments left to right, then the callee, argc == count) is proved too (unit c12_callsite). The Expr::Function arm (unit c02_blocks) proves the body is jumped over, always ends in a return instruction, runs in a fresh context, that the descriptor's entry point is the body's first byte, and (O12.rec) that a named function defined at top level is declared before its body is compiled: inside the body its name resolves to exactly the slot the definition stores the function in (recursion). The number of slots a call reserves is the context size the symbol table reports (every declaration counts: O05.sym; leave_context hands out that number: unit c09_names). NOT decided: the composition over whole programs (recursion depth, nested calls) - argued from the arm contracts, not verified.",
        "design_ref": "DESIGN.md 3.6",
        "undecided": ["composition of arm contracts over all call sequences (step lemma)"],
        "assumptions": ["arm preconditions (operands on the stack, operand bytes inside the code) hold at every step: the compile-side half of C02"],
    },
    "C02": {
        "level": "proof",
        "claim": "VM side of memory safety: every one of the 45 dispatch arms, sliced verbatim, is verified (Verus, unbounded) to read its operand bytes inside the code, to pop only what its precondition says is there, to index constants/locals/globals in range, and to move ip by exactly the operand width the compiler records; the unchecked helpers read_u8/read_u16/pop/next and OpCode::from meet those contracts on the real code (Kani). So the unchecked fast paths are safe for every bytecode that satisfies the arm preconditions. Compile side: every arm of the code generator, compile_block_statement / compile_block_value and the two generators as whole functions are verified against the generator contract (gen_post) AND against a static stack typing (ghost height, opcodes.rs): an expression leaves exactly one value, a statement none, a block used as a value exactly one, both branches of an if and the loop back edge / exit meet at equal heights, nothing falls out of the end of a function body; the per-opcode effects the typing uses are proved of all 42 machine arms (op_delta). O02.pop: at EVERY emission in the generator the static height covers what the opcode pops (precondition of emit_opcode; table op_needs = the stack preconditions of the machine arms, lemma_arm_needs_are_tabled): statically, no instruction pops an empty operand area. O02.slot: every local-slot operand the generator emits inside a function body (GetLocal / SetLocal / fused instructions; ghost bound updated at the five emission sites) lies below the slot count stored in the function's descriptor - the number of slots the Call arm reserves - because the size a context reports covers every slot in use (ctx_sized, kept by every table function).",
        "note": "Trusted: Verus/Z3, Kani/CBMC, extraction rules. NOT decided: that consistent static heights imply the arm preconditions at every step of every run (soundness of the height typing against VM::run as a whole: needs a verified semantics of the dispatch loop); operand ranges of local slots at run time; the heights at stop / volgende jumps (known finding O11.h). The ghost joins (which jump lands where) are placed by the unit templates next to the patch calls; that a patch targets the position where the join is placed is proved by the layout contracts of the same arm (if_jumps, while_post).",
        "design_ref": "DESIGN.md 3.5",
        "undecided": ["static heights consistent => arm preconditions at every step (soundness of the typing; needs a semantics of VM::run)", "heights at stop / volgende jumps (known finding O11.h)", "induction over steps (step lemma) is an argument over the arm contracts, not a verified loop"],
        "assumptions": ["arm preconditions hold at every step"],
    },
    "C14": {
        "level": "proof",
        "claim": "For ALL argument words: wrong arity is an ArgumentError for every builtin but print; bool/int/float conversions of null, bool, int, float (all 2^64 payloads), array, function are the documented value or the documented error, converting a value to its own type returns the very same word, int(float) truncates toward zero and never wraps; dispatch byte <-> builtin is total on 0..=6. Proved by loop-free Kani harnesses on the real builtins.rs with heap reads replaced by their contracts.",
        "note": "Trusted: Kani/CBMC. NOT decided (std formatting / parsing loops are out of CBMC's reach and have no Verus model): type(x) and string(x) result text, int/float of text, number -> text -> number round trip, print's placeholder substitution. Bounded: lengte of arrays (<= 3), resolve (12 concrete names). lengte() as a whole function (arity, text = number of CHARACTERS, list = number of elements, other types TypeError) is proved by the Verus unit c13_strings (O13.2) with chars().count() under its std contract.",
        "design_ref": "DESIGN.md 3.4",
        "undecided": ["call_print placeholder substitution", "call_type / call_string result text (std::fmt machinery)", "int(text) / float(text) parsing, number->text->number round trip (std FromStr/Display)"],
        "assumptions": ["callee contracts as_f64_unchecked / as_str_unchecked / as_vec_unchecked / Object::float as proved by O15.7, O15.8a/b"],
    },
    "C13": {
        "level": "proof",
        "claim": "Array element read/write is proved for arrays of EVERY length and every index (Verus on the verbatim bodies of index_get_array/index_set_array: whole-view postcondition, negative indices from the back, IndexError leaves the array unchanged); the index/target type discipline of index_get/index_set is proved for ALL words (Kani, modular); aliasing only by a bounded stand-in. Text element read/write and length (Verus on the verbatim bodies of index_get_string / index_set_string / call_length, texts of EVERY length and content, a text being its sequence of characters): the index counts CHARACTERS, negative indices count from the back, exactly the indexed character is read / replaced by the value's text, out of bounds is an IndexError and a non-text value a TypeError with the text unchanged, and no unwrap() can meet a None (no panic on non-ASCII text); the std text operations themselves are under assumed contracts.",
        "note": "Trusted: Verus/Z3, Kani/CBMC, R3 cast helpers (their contract is itself proved by O13.cast). Bounded: aliasing (length-2 array nested once). Assumed in the text unit (std documentation; Verus has no model of Chars): chars().count() = number of characters, chars().nth(i) = the i-th character or None, len() = UTF-8 byte length (1..4 per character), char/str to_string, and the compound char_indices().nth(i).map(byte range).unwrap() + replace_range expression = replace the i-th character, panicking when there is none.",
        "design_ref": "DESIGN.md 3.3",
        "undecided": ["the byte arithmetic inside the replace_range expression of index_set_string (char_indices / len_utf8: assumed as one std-documented operation)", "s[i] = s aliasing (the replacement is copied first: assumed by str::to_string's contract)", "aliasing through the VM's stack/globals (composition with C12/C02)"],
        "assumptions": ["a Vec holds at most isize::MAX elements (std guarantee) - precondition of the array units", "std text operations behave as documented (chars().count / nth, len, to_string, char_indices + replace_range)", "a text has fewer than 2^60 characters (address space)"],
    },
    "C06": {
        "level": "proof",
        "claim": "For ALL operand pairs: + - and the six comparisons on 61-bit ints are exact or an error (Kani, full domain); * / % are exact over mathematical integers (Verus on the macro-expanded real body) and panic-free (Kani); float + - * / and comparisons are bit-identical to IEEE (Kani, all bit patterns); every cross-type / unsupported combination is a TypeError, never a panic.",
        "note": "Trusted: Kani/CBMC float model, Verus/Z3, extraction rules R1,R5,R6. Bounded: string order (3 concrete pairs). Float %: not decided (CBMC has no fmod model). The three syntactic forms are the operand-order obligations of C10.",
        "design_ref": "DESIGN.md 3.2",
        "undecided": ["float % (no fmod model in CBMC)", "string order beyond the concrete pairs"],
        "assumptions": ["operands are results of the real constructors (Object::int within range, Object::float)"],
    },
    "C15": {
        "level": "proof",
        "claim": "Every scalar constructor/accessor pair of the tagged word is proved lossless and collision-free for ALL inputs (61-bit ints, (u32,u16) descriptors, 2^64 float bit patterns, every word for tag/with_type) by loop-free full-domain Kani harnesses on the real object.rs; text and array payloads only by bounded stand-ins.",
        "note": "Trusted: Kani/CBMC, allocator alignment. Bounded (not proved): string payload (3 concrete pairs), array payload (<= 2 elements).",
        "design_ref": "DESIGN.md 3.1",
        "undecided": ["text / array payloads longer than the stated bounds (O15.8a/b are bounded stand-ins)"],
        "assumptions": ["heap addresses returned by the allocator are 8-aligned (Layout of Float/String/Array); CBMC models fresh objects at offset 0"],
    },
}


def probes_for(o):
    """Hand-written boundary inputs (as Kani concrete-playback tests) tried natively when the solver's own
    counterexample does not reproduce outside CBMC's memory model."""
    return list(PROBES.get(o["harness"], []))


def _probe(harness, name, vals):
    name = name.replace("-", "m")
    rows = ",\n".join("        vec![%s]" % ", ".join(str(b) for b in v) for v in vals)
    return ("#[test]\nfn kani_concrete_playback_%s_probe_%s() {\n    let concrete_vals: Vec<Vec<u8>> = vec![\n%s\n    ];\n"
            "    kani::concrete_playback_run(concrete_vals, %s);\n}\n" % (harness, name, rows, harness))


def le(v, n=8):
    return list((v & ((1 << (8 * n)) - 1)).to_bytes(n, "little"))


PROBES = {}
_LAT = [0, 1, -1, 2, -2, 7, -7, 10, 3, (1 << 31), -(1 << 31), (1 << 59), -(1 << 59), (1 << 60) - 1, -(1 << 60), (1 << 30) + 1, 1000003]
PROBES["c06_int_arith_exact_probe"] = [_probe("c06_int_arith_exact_probe", "%d_%d_%d" % (op, i, j), [[op], le(a), le(b)])
                                        for op in range(5) for i, a in enumerate(_LAT) for j, b in enumerate(_LAT)]
# boundary lattice for harnesses whose symbolic inputs are two `any_int()` calls (8 little-endian bytes each)
_MAXI, _MINI = (1 << 60) - 1, -(1 << 60)
_PAIRS = [(-1, 1), (1, -1), (_MAXI, 1), (_MINI, -1), (_MINI, 1), (7, 0), (-7, 2), (_MAXI, _MAXI), (_MINI, _MINI), (1 << 31, 1 << 31), (10, 3)]
for _h in ["c06_add_int", "c06_sub_int", "c06_mul_int_total", "c06_div_int_total", "c06_rem_int_total",
           "c06_lt_int", "c06_lte_int", "c06_gt_int", "c06_gte_int", "c06_eq_int", "c06_neq_int"]:
    PROBES[_h] = [_probe(_h, "%d" % i, [le(a), le(b)]) for i, (a, b) in enumerate(_PAIRS)]
