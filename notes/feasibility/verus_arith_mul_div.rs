use vstd::prelude::*;
verus! {

pub const MAX_INT: isize = isize::MAX >> 3;
pub const MIN_INT: isize = isize::MIN >> 3;

#[derive(PartialEq, Eq, Structural)]
pub enum Type { Null, Int, Bool, Function, Float, String, Array }

pub enum Error { TypeError(String), SyntaxError(String), ReferenceError(String), IndexError(String), ArgumentError(String) }

#[verifier::external_body]
pub struct GC { _p: usize }

#[derive(Copy, Clone)]
pub struct Object(usize);

pub uninterp spec fn spec_tag(o: Object) -> Type;
pub uninterp spec fn spec_int(o: Object) -> int;

#[verifier::external_body]
fn fmt_opaque() -> String { String::new() }

impl Object {
    #[verifier::external_body]
    pub fn tag(self) -> (t: Type) ensures t == spec_tag(self) { unimplemented!() }
    #[verifier::external_body]
    pub fn as_int(self) -> (v: isize) ensures spec_tag(self) == Type::Int ==> (v as int == spec_int(self) && MIN_INT <= v <= MAX_INT) { unimplemented!() }
    #[verifier::external_body]
    pub fn int(value: isize) -> (o: Object) requires MIN_INT <= value <= MAX_INT ensures spec_tag(o) == Type::Int, spec_int(o) == value as int { unimplemented!() }

    pub(crate) fn mul(self, rhs: Self, gc: &mut GC) -> (r: Result<Object, Error>)
        ensures
            spec_tag(self) == Type::Int && spec_tag(rhs) == Type::Int ==> (
                if MIN_INT <= spec_int(self) * spec_int(rhs) <= MAX_INT { r matches Ok(o) && spec_tag(o) == Type::Int && spec_int(o) == spec_int(self) * spec_int(rhs) }
                else { r matches Err(Error::TypeError(_)) }),
            spec_tag(self) != spec_tag(rhs) ==> r matches Err(Error::TypeError(_)),
    {
        if self.tag() != rhs.tag() {
            return Err(Error::TypeError(fmt_opaque()))
        }

        let result = match self.tag() {
            Type::Int => match self.as_int().checked_mul(rhs.as_int()) { Some(v) if v >= MIN_INT && v <= MAX_INT => Object::int(v), _ => return Err(Error::TypeError(fmt_opaque())) },
            _ => return Err(Error::TypeError(fmt_opaque())),
        };

        Ok(result)
    }

    pub(crate) fn div(self, rhs: Self, gc: &mut GC) -> (r: Result<Object, Error>)
        ensures
            spec_tag(self) == Type::Int && spec_tag(rhs) == Type::Int ==> (
                if spec_int(rhs) == 0 { r matches Err(Error::TypeError(_)) } else {
                   r matches Ok(o) && spec_tag(o) == Type::Int && ({
                      let q = spec_int(o); let a = spec_int(self); let b = spec_int(rhs); let rem = a - q * b;
                      &&& (if rem < 0 { -rem } else { rem }) < (if b < 0 { -b } else { b })
                      &&& (rem == 0 || (rem < 0) == (a < 0)) }) }),
    {
        if self.tag() != rhs.tag() {
            return Err(Error::TypeError(fmt_opaque()))
        }

        let result = match self.tag() {
            Type::Int => match self.as_int().checked_div(rhs.as_int()) { Some(v) if v >= MIN_INT && v <= MAX_INT => Object::int(v), _ => return Err(Error::TypeError(fmt_opaque())) },
            _ => return Err(Error::TypeError(fmt_opaque())),
        };

        Ok(result)
    }
}

} // verus!
fn main() {}
