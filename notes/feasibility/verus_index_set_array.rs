use vstd::prelude::*;
verus! {

#[derive(Copy, Clone)]
pub struct Object(usize);

pub enum Error {
    TypeError(String),
    SyntaxError(String),
    ReferenceError(String),
    IndexError(String),
    ArgumentError(String),
}

pub open spec fn norm(index: int, len: int) -> int { if index < 0 { index + len } else { index } }

#[verifier::external_body]
fn cast_isize_usize(x: isize) -> (r: usize)
    ensures r as int == (if x >= 0 { x as int } else { x as int + usize::MAX as int + 1 })
{ x as usize }

fn index_set_array(array: &mut Vec<Object>, mut index: isize, value: Object) -> (r: Result<(), Error>)
    requires old(array)@.len() <= isize::MAX,
    ensures
        (0 <= norm(index as int, old(array)@.len() as int) < old(array)@.len()) ==> (r is Ok && final(array)@ == old(array)@.update(norm(index as int, old(array)@.len() as int), value)),
        !(0 <= norm(index as int, old(array)@.len() as int) < old(array)@.len()) ==> (r matches Err(Error::IndexError(_)) && final(array)@ == old(array)@),
{
    if index < 0 {
        index += array.len() as isize;
    }
    let index = cast_isize_usize(index);
    if index >= array.len() {
        return Err(Error::IndexError(
            "lijst index valt buiten de lijst".to_string(),
        ));
    }
    array[index] = value;
    Ok(())
}

} // verus!
fn main() {}
