use vstd::prelude::*;
verus! {

#[derive(PartialEq, Eq, Structural)]
pub enum Type { Null, Int, Bool, Function, Float, String, Array }
pub enum Error { TypeError(String), SyntaxError(String), ReferenceError(String), IndexError(String), ArgumentError(String) }
#[verifier::external_body]
pub struct GC { _p: usize }
#[derive(Copy, Clone)]
pub struct Object(usize);
pub uninterp spec fn spec_tag(o: Object) -> Type;
pub uninterp spec fn spec_fn_ip(o: Object) -> u32;
pub uninterp spec fn spec_fn_locals(o: Object) -> u32;
pub uninterp spec fn spec_null() -> Object;
#[verifier::external_body]
fn fmt_opaque() -> String { String::new() }

impl Object {
    #[verifier::external_body]
    pub fn tag(self) -> (t: Type) ensures t == spec_tag(self) { unimplemented!() }
    #[verifier::external_body]
    pub fn null() -> (o: Object) ensures o == spec_null() { unimplemented!() }
    #[verifier::external_body]
    pub fn as_function(self) -> (r: [u32; 2]) ensures spec_tag(self) == Type::Function ==> (r[0] == spec_fn_ip(self) && r[1] == spec_fn_locals(self) && r[1] <= 0xFFFF) { unimplemented!() }
}

#[derive(Copy, Clone)]
pub struct Frame { pub ip: usize, pub base_pointer: u16 }
impl Frame { fn new(ip: usize, base_pointer: u16) -> (f: Self) ensures f.ip == ip, f.base_pointer == base_pointer { Frame { ip, base_pointer } } }

pub struct VM {
    pub stack: Vec<Object>,
    pub globals: Vec<Object>,
    pub frames: Vec<Frame>,
    pub instructions: Vec<u8>,
    pub ip: usize,
    pub bp: u16,
}

impl VM {
    // --- helpers: contracts assumed here, proved on the real helpers by Kani ---
    #[verifier::external_body]
    fn read_u8(&mut self) -> (v: u8)
        requires old(self).ip < old(self).instructions@.len()
        ensures v == old(self).instructions@[old(self).ip as int], final(self).ip == old(self).ip + 1,
                final(self).stack == old(self).stack, final(self).frames == old(self).frames, final(self).globals == old(self).globals,
                final(self).instructions == old(self).instructions, final(self).bp == old(self).bp
    { unimplemented!() }
    #[verifier::external_body]
    fn pop(&mut self) -> (o: Object)
        requires old(self).stack@.len() > 0
        ensures o == old(self).stack@.last(), final(self).stack@ == old(self).stack@.drop_last(),
                final(self).ip == old(self).ip, final(self).frames == old(self).frames, final(self).globals == old(self).globals,
                final(self).instructions == old(self).instructions, final(self).bp == old(self).bp
    { unimplemented!() }
    #[verifier::external_body]
    fn push(&mut self, obj: Object)
        ensures final(self).stack@ == old(self).stack@.push(obj),
                final(self).ip == old(self).ip, final(self).frames == old(self).frames, final(self).globals == old(self).globals,
                final(self).instructions == old(self).instructions, final(self).bp == old(self).bp
    { unimplemented!() }

    // verbatim from vm.rs
    fn pushframe(&mut self, ip: u32, base_pointer: u16)
        requires old(self).frames@.len() >= 1
        ensures final(self).frames@.len() == old(self).frames@.len() + 1,
                final(self).frames@.last().ip == ip as usize, final(self).frames@.last().base_pointer == base_pointer,
                final(self).frames@[old(self).frames@.len() - 1].ip == old(self).ip,
                final(self).ip == ip as usize, final(self).bp == base_pointer, final(self).stack == old(self).stack,
    {
        // store current IP into the frame that we're leaving
        // so we can return to it later
        let frame = self.frames.last_mut().unwrap();
        frame.ip = self.ip;

        // push new frame and copy over IP and BP
        // this somehow yields an enormous performance improvent
        self.frames.push(Frame::new(ip as usize, base_pointer));
        self.ip = ip as usize;
        self.bp = base_pointer;
    }

    // OpCode::Call arm, sliced verbatim; free variables -> parameters
    fn arm_call(&mut self) -> (r: Result<(), Error>)
        requires old(self).ip < old(self).instructions@.len(), old(self).frames@.len() >= 1,
                 old(self).stack@.len() <= 0xFFFF,
                 old(self).stack@.len() >= 1 + old(self).instructions@[old(self).ip as int],
        ensures r is Ok ==> ({
                    let argc = old(self).instructions@[old(self).ip as int] as int;
                    let f = old(self).stack@.last();
                    let base = old(self).stack@.len() - 1 - argc;
                    &&& final(self).bp == base
                    &&& final(self).ip == spec_fn_ip(f)
                    &&& final(self).stack@.len() == base + spec_fn_locals(f)
                    &&& final(self).stack@.subrange(0, old(self).stack@.len() - 1) == old(self).stack@.drop_last()
                    &&& forall|i: int| old(self).stack@.len() - 1 <= i < final(self).stack@.len() ==> final(self).stack@[i] == spec_null()
                    &&& final(self).frames@.len() == old(self).frames@.len() + 1
                    &&& final(self).frames@[old(self).frames@.len() - 1].ip == old(self).ip + 1
                }),
    {
                    let num_args = self.read_u8();
                    let base_pointer = self.stack.len() as u16 - 1 - num_args as u16;
                    let obj = self.pop();
                    if obj.tag() != Type::Function {
                        return Err(Error::TypeError(fmt_opaque()));
                    }
                    let __t = obj.as_function(); let ip = __t[0]; let num_locals = __t[1];

                    // Make room on the stack for any local variables defined inside this function
                    for _ in 0..num_locals - num_args as u32 {
                        self.push(Object::null());
                    }

                    self.pushframe(ip, base_pointer);
                    Ok(())
    }
}

} // verus!
fn main() {}
